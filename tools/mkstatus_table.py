#!/venv/bin/python
"""prints a markdown status table per property (from MANIFEST.json, evidence/*.json, known_findings.json and an optional
thorough-sweep log) for DESIGN.md section 12.7"""
import json, os, re, sys
ROOT = os.path.dirname(os.path.dirname(os.path.abspath(__file__)))
man = json.load(open(os.path.join(ROOT, 'MANIFEST.json')))
kf = json.load(open(os.path.join(ROOT, 'known_findings.json')))['findings']
thor = {}
for p in sys.argv[1:]:
    for l in open(p):
        m = re.match(r'(C\d\d) rc=(\d+) (\d+)s', l)
        if m:
            thor[m.group(1)] = (int(m.group(2)), int(m.group(3)))
        m = re.match(r'(C\d\d) thorough: .* wall=([\d.]+)s -> (\w+)', l)
        if m:
            thor[m.group(1)] = (0 if m.group(3) == 'OK' else 1, int(float(m.group(2))))
print('| id | level | deciding method | quick: paths / obligations / s | thorough s | recorded findings (known) | repaired |')
print('|---|---|---|---|---|---|---|')
for c in man['checks']:
    pid = c['property_id']
    e = json.load(open(os.path.join(ROOT, c['evidence_file'])))
    cov = e['coverage']
    known = [f['id'] for f in kf if f['property'] == pid and f['status'] == 'known']
    fixed = [f['commit'] for f in kf if f['property'] == pid and f['status'] == 'fixed']
    t = thor.get(pid)
    print('| %s | %s | %s | %s / %s / %.0f | %s | %s | %s |' % (
        pid, c['level_claimed']['category'], c['technique'], cov.get('states'), cov.get('obligations'), e['wall_s'],
        ('%d' % t[1]) if t and t[0] == 0 else '-', ', '.join(known) or '-', ', '.join(fixed) or '-'))
for n in man['not_applicable']:
    print('| %s | not applicable | %s | | | | |' % (n['property_id'], n['reason']))
