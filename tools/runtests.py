#!/venv/bin/python
"""run the pinned test suite on /repo HEAD in a scratch worktree and compare with BASELINE.json stable_pass"""
import subprocess, json, os, sys, time
wt = '/tmp/wt-tests'
def sh(c, **k): return subprocess.run(c, shell=True, capture_output=True, text=True, **k)
sh('git -C /repo worktree remove --force %s' % wt)
assert sh('git -C /repo worktree add --detach %s HEAD' % wt).returncode == 0
head = sh('git -C /repo rev-parse --short HEAD').stdout.strip()
t = time.time()
j = '/tmp/junit-tests.xml'
sh('cd %s && /venv/bin/python -m pytest -q -p no:cacheprovider --timeout=900 --continue-on-collection-errors -n 8 --junitxml=%s tests' % (wt, j), timeout=5400)
import xml.etree.ElementTree as ET
passed = set()
for tc in ET.parse(j).getroot().iter('testcase'):
    if not any(ch.tag in ('failure', 'error', 'skipped') for ch in tc):
        passed.add('%s::%s' % (tc.get('classname'), tc.get('name')))
base = set(json.load(open('/root/.vp/BASELINE.json'))['stable_pass'])
# tests sharing the session database race under xdist (that is property C36): re-run the missing ones serially
for miss in sorted(base - passed):
    mod, cls, name = miss.rsplit('.', 1)[0].replace('.', '/') + '.py', miss.rsplit('.', 1)[1].split('::')[0], miss.split('::')[1]
    r = sh('cd %s && /venv/bin/python -m pytest -q -p no:cacheprovider --timeout=900 "%s::%s::%s"' % (wt, mod, cls, name), timeout=1800)
    if r.returncode == 0:
        passed.add(miss)
print('HEAD', head, 'passed', len(passed), 'baseline missing:', sorted(base - passed), 'in %ds' % (time.time() - t))
sh('git -C /repo worktree remove --force %s' % wt)
