#!/bin/bash
# runs every registered check (quick tier unless $1 = thorough) on the working tree of /repo and prints one line each
cd "$(dirname "$0")/.."
tier=${1:-quick}
for c in $(/venv/bin/python -c "import json; print(' '.join(x['property_id'] for x in json.load(open('MANIFEST.json'))['checks']))"); do
  s=$(date +%s)
  out=$(./check $c --tier $tier 2>&1); rc=$?
  echo "$c rc=$rc $(( $(date +%s) - s ))s $(echo "$out" | tail -1 | cut -c1-140)"
done
