#!/venv/bin/python
"""regenerates /verif/MANIFEST.json from the table below + the check modules present"""
import json, os
ROOT = os.path.dirname(os.path.dirname(os.path.abspath(__file__)))
MC = 'model_checking'
TV = 'translation_validation'
BSE = ("bounded symbolic execution of the real androguard functions (own z3-backed executor, all paths within the "
       "stated bounds); every path's postcondition is an SMT query that must be unsat; witnesses are replayed on the "
       "unhooked code before a VIOLATION is printed")
TRUST = ("z3; the symx engine value classes and C-boundary stubs (differentially validated against the unhooked module on "
         "every run); the reference model written from the DEX/AOSP specification; bounds as listed in the evidence file")
CHECKS = {
 'C01': (MC, "all 256 opcodes x all operand bit patterns (every operand byte symbolic) against a format table written from the Dalvik spec", '5/C01', 'symbolic execution of get_instruction + accessors, z3 BV'),
 'C05': (MC, "skeleton DEX (3 classes incl. interface, covariant method pair, abstract/native methods, array field) with symbolic bytes overlaid on one field group at a time (class_def words, type/proto/field/method id fields, class_data uleb bytes, code_item header); the real DEX() object model is compared with an independent term-aware reference reader of the same bytes, plus get_class / get_encoded_method_descriptor / get_encoded_field_descriptor lookups", '5/C05', 'symbolic execution of the whole DEX parse on skeleton overlays + reference reader'),
 'C06': (MC, "read_null_terminated_string on up to 300 fully symbolic bytes (one path per first-NUL position, chunk boundaries included); MUTF-8 round trip of 1..2 (thorough 3) fully symbolic UTF-16 code units through StringDataItem and the repo's mutf8.decode binding (the mutf8 package's Python decoder run symbolically); const-string / jumbo index symbolic on a skeleton DEX", '5/C06', 'symbolic execution with SymIO, symbolic strings and the AST-rewritten mutf8 fallback'),
 'C07': (MC, "(O1) the real load-order table is a strict total order consistent with the declared dependencies (finite z3 query); (O3) the map entries of skeleton DEX files are routed through a symbolic permutation: all 720 orders of a 6-entry map, all 66 transpositions and 24 (reversed) rotations of a 12-entry map; parsed classes, members, strings and code must equal the original order", '5/C07', 'symbolic permutation of map entries through the real MapList parse + z3 order query'),
 'C08': (MC, "code items with 1..3 fully symbolic try_items and 1..2 handler lists (sizes -2..2, symbolic uleb128 fields of 1-2 bytes), padding parity both ways; reported tries/handlers/determineException compared with a declarative decode of the same bytes", '5/C08', 'symbolic execution of DalvikCode parsing + determineException'),
 'C09': (MC, "DEX()/HeaderItem on a fully symbolic 112-byte header with Adler-32 as an uninterpreted value and a MapList call-order monitor; single-byte-change lemma on the Adler-32 definition (z3 LIA); short buffers", '5/C09', 'symbolic execution of DEX.__init__/HeaderItem + z3 integer lemma'),
 'C29': (MC, "ResourceResolver over tables of 1..4 (thorough 5) real ARSCResTableEntry objects, one optionally complex, with every value's type (reference / literal) and 32-bit data symbolic (references range over all entries, a missing id and null); unwinding assertion depth <= K+2; resolved values equal the literals reachable in the reference graph", '5/C29', 'symbolic execution of the resolver with an unwinding assertion'),
 'C30': (MC, "all two-letter and packed three-letter languages x absent / two-character / three-digit regions as symbolic characters: string->word, word->string and both round trips against AOSP pack/unpackLanguageOrRegion", '5/C30', 'symbolic execution over symbolic strings (SStr) and bit-vectors'),
 'C10': (MC, "skeleton DEX (dexasm) whose method is a seeded template of 5..8 concrete opcodes + payloads with symbolic branch offsets / switch targets / payload references / try start, count and handler addresses (3-4 symbolic quantities per template, full field width); the real DEX() + MethodAnalysis run on every path. Obligations: blocks partition the sweep, every target / try start / handler begins a block, only the last instruction branches", '5/C10-C12,C40', 'symbolic execution of DEX parsing + MethodAnalysis on skeleton overlays'),
 'C11': (MC, "skeleton DEX (dexasm) whose method is a seeded template of 5..8 concrete opcodes + payloads with symbolic branch offsets / switch targets / payload references / try start, count and handler addresses (3-4 symbolic quantities per template, full field width); the real DEX() + MethodAnalysis run on every path. Obligations: successor sets equal the targets the last instruction allows, each child block starts at its target, predecessor lists are the inverse", '5/C10-C12,C40', 'symbolic execution of DEX parsing + MethodAnalysis on skeleton overlays'),
 'C12': (MC, "skeleton DEX (dexasm) whose method is a seeded template of 5..8 concrete opcodes + payloads with symbolic branch offsets / switch targets / payload references / try start, count and handler addresses (3-4 symbolic quantities per template, full field width); the real DEX() + MethodAnalysis run on every path. Obligations: a block reports a try range iff it overlaps one, with that range and its handler blocks", '5/C10-C12,C40', 'symbolic execution of DEX parsing + MethodAnalysis on skeleton overlays'),
 'C40': (MC, "skeleton DEX (dexasm) whose method is a seeded template of 5..8 concrete opcodes + payloads with symbolic branch offsets / switch targets / payload references / try start, count and handler addresses (3-4 symbolic quantities per template, full field width); the real DEX() + MethodAnalysis run on every path. Obligations: block boundaries, edge and handler offsets are sweep offsets; get_special_ins is the payload at the encoded reference (aligned and misaligned)", '5/C10-C12,C40', 'symbolic execution of DEX parsing + MethodAnalysis on skeleton overlays'),
 'C13': (MC, "skeleton DEX (dexasm: 2 classes, 5 methods, 4 fields, external and array-receiver members) whose method LA;->m1 has 14 invoke / field / const-string / new-instance / const-class slots; the pool-index operands of one slot group at a time are symbolic over their whole id table; real DEX() + Analysis.add + create_xref per path; every getter compared with a reference computed from the id tables. Obligations: callees with offsets, internal vs single external stub, caller lists, call-graph edges", '5/C13-C16', 'symbolic execution of DEX parsing + Analysis.create_xref on skeleton overlays'),
 'C14': (MC, "skeleton DEX (dexasm: 2 classes, 5 methods, 4 fields, external and array-receiver members) whose method LA;->m1 has 14 invoke / field / const-string / new-instance / const-class slots; the pool-index operands of one slot group at a time are symbolic over their whole id table; real DEX() + Analysis.add + create_xref per path; every getter compared with a reference computed from the id tables. Obligations: reads/writes on the FieldAnalysis of the defining class, method lists, one FieldAnalysis per field", '5/C13-C16', 'symbolic execution of DEX parsing + Analysis.create_xref on skeleton overlays'),
 'C15': (MC, "skeleton DEX (dexasm: 2 classes, 5 methods, 4 fields, external and array-receiver members) whose method LA;->m1 has 14 invoke / field / const-string / new-instance / const-class slots; the pool-index operands of one slot group at a time are symbolic over their whole id table; real DEX() + Analysis.add + create_xref per path; every getter compared with a reference computed from the id tables. Obligations: string xrefs and new-instance / const-class lists in both directions, nothing else", '5/C13-C16', 'symbolic execution of DEX parsing + Analysis.create_xref on skeleton overlays'),
 'C16': (MC, "the same two classes analysed as one DEX and as two DEX files added in both orders; the operands of one slot group are symbolic and mapped through each file's own index space (ite chain over the same variable); all normalised getters must agree", '5/C13-C16', 'symbolic execution of three analyses per path'),
 'C17': (MC, "every history of <= 2 (thorough 3) operations over 8 rename/reload operations on a skeleton DEX whose two method name_idx words are symbolic over the identifier strings of the pool (name sharing is the solver's choice); all 7 items and the const-string operand compared with a dictionary model after every step; the known finding is confined to its region predicate", '5/C17', 'symbolic execution of DEX parsing + rename API over bounded histories'),
 'C23': (MC, "writer.string on strings of 0..2 (thorough 0..3) fully symbolic code points (0..0x10FFFF incl. lone surrogates); the produced literal is lexed by a Java unicode-escape + string-escape reference inside the same symbolic run and compared as UTF-16 code units", '5/C23', 'symbolic execution over symbolic strings with %x expanded to symbolic digits'),
 'C24': (MC, "decompiler.util.get_type and core.dex.get_type on class descriptors whose 1..13 (thorough 16) body characters are symbolic (any BMP character, '/' as separator), 0..2 array dimensions, all primitives", '5/C24', 'symbolic execution over symbolic strings (SStr, SymDict)'),
 'C38': (MC, "clean_file_name with every character symbolic for lengths 0..4 (thorough 0..6) and symbolic windows (prefix, cut region, tail) for lengths 229..600, unique on/off, first two isfile() answers arbitrary; the five clauses of the property on the returned symbolic string", '5/C38', 'symbolic execution with symbolic regex (SymRe), path model and arbitrary isfile predicate'),
 'C35': (MC, "unwinding assertions (iterations <= N+2, N/128+3 for the chunked reader) on the input-driven loops of read_null_terminated_string, DebugInfoItem, HiddenApiClassDataItem, EncodedArray/Annotation/CatchHandlerList, ARSCHeader and parse_signatures_or_digests, each driven on 3..260 fully symbolic bytes; whole-file parses are outside", '5/C35', 'bounded model checking with unwinding assertions via symbolic execution'),
 'C37': (MC, "the real export_apps_to_format run with recording os/open stubs: class body of 1..5 (thorough 6) and method name of 1..4 (thorough 5) fully symbolic characters; every created path must stay under the output directory by a segment walk", '5/C37', 'symbolic execution over symbolic strings with a recording filesystem stub'),
 'C34': (MC, "PARTIAL: get_dex_names / is_multidex / get_all_dex selection with get_files() stubbed: one fully symbolic entry name of 0..14 (thorough 16) characters next to fixed entries, plus the regex literals of the real functions compared with classes[0-9]*\\.dex over unbounded strings by z3's regex theory. Archive reading (apkInspector, zlib) is outside the claim", '5/C34', 'symbolic regex execution + z3 sequence/regex theory language inclusion'),
 'C39': (MC, "load_api_specific_resource_module / load_permissions / load_permission_mappings with the API level symbolic: every integer up to +-2^100 and canonical decimal strings of up to 3 digits (and negatives); isfile answers derived from the shipped level lists; the opened level is compared with the documented rule", '5/C39', 'symbolic execution with format markers / symbolic strings and a filesystem stub'),
 'C31': (MC, "PARTIAL: only the manifest kernels that do not pass through lxml: APK._format_value (component-name completion, value 0..6 / package 0..4 symbolic characters) and get_effective_target_sdk_version (target/min as None, empty or 1..3 symbolic digits). Everything that walks the lxml tree is outside the claim", '5/C31', 'symbolic execution over symbolic strings'),
 'C27': (MC, "format_value / complexToFloat / get_resource_dimen / get_resource_color / Res_value decoding for all 2^32 data words of every AOSP value type, floats as z3 Float64/Float32", '5/C27', 'symbolic execution with format markers and z3 FP theory'),
 'C04': (MC, "encoded_value header byte over every legal (type,value_arg) pair with fully symbolic payload bytes; nested array/annotation template with symbolic size and leaves; printed field initialiser of DvClass.get_source", '5/C04', 'symbolic execution of EncodedValue/EncodedArray/EncodedAnnotation + DvClass.get_source field block'),
 'C02': (MC, "step lemma of the real LinearSweepAlgorithm on buffers of 2..20 (thorough 24) fully symbolic bytes (every first code unit, truncation at every remaining length, payload sizes symbolic) + seeded streams of valid opcodes with symbolic operands and aligned payloads recovered exactly", '5/C02', 'symbolic execution of the sweep loop, one iteration + induction over the offset'),
 'C03': (MC, "all 2^40 five-byte LEB128 prefixes and all 2^32 values for the writers, against a z3 definition of (U/S)LEB128", '5/C03', 'symbolic execution of the five LEB128 functions, z3 BV'),
}
NA = {
 'C32': "depends on RSA/ECDSA/DSA verification and digests inside OpenSSL (cffi) and asn1crypto objects: nothing of the property is left to decide once those are stubbed, and they cannot be encoded for an SMT solver",
}
props = [json.loads(l) for l in open(os.path.join(ROOT, 'properties.jsonl'))]
checks = []
na = []
for p in props:
    pid = p['id']
    if pid in CHECKS and os.path.exists(os.path.join(ROOT, 'vf', 'checks', pid.lower() + '.py')):
        cat, text, ref, tech = CHECKS[pid]
        checks.append(dict(
            property_id=pid,
            quick_cmd='./check %s --tier quick' % pid,
            thorough_cmd='./check %s --tier thorough' % pid,
            evidence_file='evidence/%s.json' % pid,
            replay_cmd_template='./check %s --replay {path}' % pid,
            engine='symx',
            level_claimed=dict(category=cat, text=BSE + '. Scope: ' + text, design_ref='DESIGN.md section ' + ref),
            level_note=TRUST,
            technique=tech))
    else:
        na.append(dict(property_id=pid, reason=NA.get(pid, 'check not built yet (work in progress; see DESIGN.md section 11 for the build order)')))
man = dict(
    version=1,
    setup_cmd='./setup.sh',
    hooks=dict(guard='ANDROGUARD_VERIF', enable='no source hooks: the checks load /repo through an import hook (vf/hook.py) that applies a semantics-preserving AST rewrite in memory; ANDROGUARD_VERIF is reserved and unused',
               baseline_off_cmd='cd /repo && /venv/bin/python -m pytest -ra -q -p no:cacheprovider --timeout=900 --continue-on-collection-errors',
               source_commits=[], add_only=True),
    engines=[dict(name='symx', path='vf/engine.py', serves_properties=[c['property_id'] for c in checks],
                  kind_free_text='dynamic symbolic executor for Python over z3 bit-vectors / floats / symbolic strings, with import-hook loading of the real source')],
    checks=checks,
    not_applicable=na,
    notes='Exit codes: 0 held within bounds; 1 + VIOLATION line; 3 harness error or inconclusive (never reported as success). Known findings: known_findings.json.')
json.dump(man, open(os.path.join(ROOT, 'MANIFEST.json'), 'w'), indent=1)
print('checks:', len(checks), 'not_applicable:', len(na))
