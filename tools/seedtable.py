#!/venv/bin/python
"""prints the markdown table of seeded changes (from seeded/*/meta.json) for DESIGN.md section 12.5"""
import json, glob, os
ROOT = os.path.dirname(os.path.dirname(os.path.abspath(__file__)))
rows = []
for d in sorted(glob.glob(os.path.join(ROOT, 'seeded', '*'))):
    m = os.path.join(d, 'meta.json')
    if not os.path.exists(m):
        continue
    j = json.load(open(m))
    notes = (j.get('needs_to_manifest') or '').strip().splitlines()
    title = next((l.strip('# ').strip() for l in notes if l.strip()), '')[:110]
    tests = 'yes' if 'tests_missing_from_baseline_pass' in j and not j['tests_missing_from_baseline_pass'] else ('FAILS' if j.get('tests_missing_from_baseline_pass') else 'not re-run')
    rows.append((os.path.basename(d), 'valid' if j.get('valid_seed') else 'INVALID', tests, ', '.join(j.get('caught_by') or []) or 'MISSED', title))
print('| seed | valid (demo 0 → 1, applies, imports) | pinned suite unchanged | caught by | what it changes |')
print('|---|---|---|---|---|')
for r in rows:
    print('| %s | %s | %s | %s | %s |' % r)
