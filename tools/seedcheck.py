#!/venv/bin/python
"""validate a seeded change delivered by a sub-agent and run our check against it.
usage: tools/seedcheck.py C03 A [--no-tests]      (seed files in /tmp/seeds/C03/A)
Works in the scratch worktree /tmp/wt (never in /repo); results -> /verif/seeded/<pid>-<x>/meta.json"""
import sys, os, json, subprocess, shutil, time, re
pid, x = sys.argv[1], sys.argv[2]
notests = '--no-tests' in sys.argv
checks = [a for a in sys.argv[3:] if a.startswith('C')] or [pid]
src = '/tmp/seeds/%s/%s' % (pid, x)
wt = '/tmp/wt-%s%s' % (pid.lower(), x.lower())
def sh(cmd, **kw):
    return subprocess.run(cmd, shell=True, capture_output=True, text=True, **kw)
sh('git -C /repo worktree remove --force %s' % wt)
r = sh('git -C /repo worktree add --detach %s HEAD' % wt)
assert r.returncode == 0, r.stderr
meta = dict(property=pid, seed=x, repo_head=sh('git -C /repo rev-parse --short HEAD').stdout.strip())
try:
    env = 'PYTHONPATH=%s PYTHONDONTWRITEBYTECODE=1' % wt
    d0 = sh('cd %s && %s /venv/bin/python %s/demo.py' % (wt, env, src), timeout=600)
    meta['demo_clean_rc'] = d0.returncode
    a = sh('git -C %s apply %s/patch.diff' % (wt, src))
    meta['patch_applies'] = a.returncode == 0
    if a.returncode != 0:
        meta['patch_error'] = a.stderr[-500:]
    d1 = sh('cd %s && %s /venv/bin/python %s/demo.py' % (wt, env, src), timeout=600)
    meta['demo_patched_rc'] = d1.returncode
    meta['demo_patched_output'] = (d1.stdout + d1.stderr)[-600:]
    imp = sh('cd %s && /venv/bin/python -c "import androguard.core.dex, androguard.core.axml, androguard.core.apk, androguard.misc, androguard.core.analysis.analysis, androguard.decompiler.decompile"' % wt)
    meta['imports'] = imp.returncode == 0
    res = {}
    for c in checks:
        for tier in ('quick',):
            t = time.time()
            k = sh('cd /verif && VERIF_REPO=%s ./check %s --tier %s' % (wt, c, tier), timeout=7200)
            res['%s:%s' % (c, tier)] = dict(rc=k.returncode, s=round(time.time() - t, 1),
                                           viol=[l for l in k.stdout.splitlines() if l.startswith('  violation')][:4],
                                           err=k.stderr[-400:] if k.returncode not in (0, 1) else '')
    meta['checks'] = res
    if not notests:
        t = time.time()
        j = '/tmp/junit-%s%s.xml' % (pid, x)
        k = sh('cd %s && /venv/bin/python -m pytest -q -p no:cacheprovider --timeout=900 --continue-on-collection-errors -n 6 --junitxml=%s tests' % (wt, j), timeout=3600)
        import xml.etree.ElementTree as ET
        passed = set()
        for tc in ET.parse(j).getroot().iter('testcase'):
            if not any(ch.tag in ('failure', 'error', 'skipped') for ch in tc):
                passed.add('%s::%s' % (tc.get('classname'), tc.get('name')))
        base = set(json.load(open('/root/.vp/BASELINE.json'))['stable_pass'])
        for miss in sorted(base - passed):   # session-DB race under xdist (property C36): re-run serially
            mod, cls, name = miss.rsplit('.', 1)[0].replace('.', '/') + '.py', miss.rsplit('.', 1)[1].split('::')[0], miss.split('::')[1]
            rr = sh('cd %s && /venv/bin/python -m pytest -q -p no:cacheprovider --timeout=900 "%s::%s::%s"' % (wt, mod, cls, name), timeout=1800)
            if rr.returncode == 0:
                passed.add(miss)
        meta['tests_missing_from_baseline_pass'] = sorted(base - passed)
        meta['tests_s'] = round(time.time() - t)
        os.unlink(j)
    ok = meta['demo_clean_rc'] == 0 and meta['demo_patched_rc'] == 1 and meta['patch_applies'] and meta['imports'] and \
        (notests or not meta['tests_missing_from_baseline_pass'])
    meta['valid_seed'] = ok
    meta['caught_by'] = [k for k, v in res.items() if v['rc'] == 1]
    out = '/verif/seeded/%s-%s' % (pid, x)
    os.makedirs(out, exist_ok=True)
    for f in ('patch.diff', 'demo.py', 'notes.md'):
        if os.path.exists(os.path.join(src, f)):
            shutil.copy(os.path.join(src, f), out)
    notes = open(os.path.join(src, 'notes.md')).read() if os.path.exists(os.path.join(src, 'notes.md')) else ''
    meta['needs_to_manifest'] = notes[:1500]
    meta['what_was_run'] = 'tools/seedcheck.py: demo on clean worktree, git apply, demo on patched worktree, import smoke, ./check with VERIF_REPO=<worktree>' + ('' if notests else ', pinned test suite (pytest -n 6) compared with BASELINE.json stable_pass')
    json.dump(meta, open(os.path.join(out, 'meta.json'), 'w'), indent=1)
    print(json.dumps({k: meta[k] for k in ('valid_seed', 'caught_by', 'demo_clean_rc', 'demo_patched_rc')}), {k: (v['rc'], v['s']) for k, v in res.items()}, meta.get('tests_missing_from_baseline_pass'))
finally:
    sh('git -C /repo worktree remove --force %s' % wt)
