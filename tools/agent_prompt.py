"""prints the prompt for a mutant-writing sub-agent: only the property text, nothing about /verif"""
import json, sys
pid = sys.argv[1]
props = {json.loads(l)['id']: json.loads(l) for l in open('/verif/properties.jsonl')}
p = props[pid]
wt = '/tmp/agent-%s' % pid.lower()
out = '/tmp/seeds/%s' % pid
print(f"""You are helping to evaluate a verification effort for the open-source Python project androguard (Android DEX/APK/AXML parser, analysis and decompiler). Your job is to write realistic *breaking changes* (seeded bugs) for ONE stated property of the project.

Setup (do this first):
  git -C /repo worktree add --detach {wt} HEAD
Work ONLY inside {wt} (your private git worktree of the project) and {out} (your output directory, create it). Never edit anything under /repo itself. Do not read, list or use anything under /verif — your work must be independent of it.
Python interpreter with all dependencies: /venv/bin/python (run things with cwd={wt} or PYTHONPATH={wt} so that your worktree's androguard package is the one imported; check with `python -c "import androguard; print(androguard.__file__)"`).

The property (id {pid}): "{p['title']}"
  Statement: {p['statement']}
  Quantified over: {p['quantifier']['text']}
  Code anchors: {', '.join(p['anchors']['files'])}; observable at: {', '.join(p['anchors'].get('observe_at') or [])}

Task: produce TWO different, independent changes (call them A and B) to the androguard source in your worktree, each of which breaks this property while
  (1) the package still imports and works normally on ordinary inputs,
  (2) the existing test suite still passes exactly as before:  cd {wt} && /venv/bin/python -m pytest -q -p no:cacheprovider --timeout=900 -n 4 tests   (these 6 tests already fail on the untouched tree and are ignored: test_apk.py::APKTest::testAPK, testCustomPermissionProtectionLevel, testFeatures, testFrameworkResAPK, testMultipleLocaleAppName, test_strings.py::StringTest::testMUTF8; the full run takes ~3-6 minutes; everything else must still pass),
  (3) the bug needs something specific to manifest — an unusual or boundary input, a particular bit pattern, a multi-step sequence of operations, a particular interleaving, or two cooperating code sites that each look fine alone — NOT something ordinary use or a casual smoke test would expose at once. Think of plausible developer mistakes: an off-by-one at a boundary, a wrong mask/shift/sign, a "simplifying" refactor that drops a corner case, a cache keyed too coarsely, a wrong comparison operator, a swapped rarely-used branch.
Do not add or edit tests in the tests/ directory, and keep each change small (a few lines).

For each change X in (A, B) deliver in {out}/X/:
  patch.diff   — `git diff` of the change against HEAD (must apply with `git apply` to a clean checkout)
  demo.py      — a standalone script, run as `PYTHONPATH=<checkout> /venv/bin/python demo.py`, that exercises the real androguard API on the specific triggering input and exits 0 when the behaviour is correct (i.e. on the untouched tree) and exits 1 (printing what went wrong) when the property is broken (i.e. with the patch applied). It must not depend on files outside the checkout and the script itself (it may use test data under tests/data of the checkout via its PYTHONPATH root, or build inputs in memory).
  notes.md     — 5-10 lines: what the change does, which part of the property it breaks, and exactly what is needed for it to manifest.
Verify yourself, for each change: demo.py exits 0 on the clean worktree and 1 with the patch; the test suite result with the patch is identical to the clean result. Make A and B touch different mechanisms if you can.

When finished: reset your worktree and remove it (git -C /repo worktree remove --force {wt}), and reply with a short summary (for each of A and B: one line what it breaks + confirmation of the three verifications). If you cannot find a change meeting all conditions for A or B, say so honestly rather than delivering something that fails a condition.""")
