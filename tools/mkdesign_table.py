#!/venv/bin/python
"""replaces the text between SEED-TABLE-BEGIN / SEED-TABLE-END in DESIGN.md by the output of tools/seedtable.py"""
import os, subprocess
ROOT = os.path.dirname(os.path.dirname(os.path.abspath(__file__)))
t = subprocess.run([os.path.join(ROOT, 'tools', 'seedtable.py')], capture_output=True, text=True).stdout
p = os.path.join(ROOT, 'DESIGN.md')
s = open(p).read()
a, b = s.index('SEED-TABLE-BEGIN'), s.index('SEED-TABLE-END')
s = s[:a] + 'SEED-TABLE-BEGIN\n' + t + s[b:]
open(p, 'w').write(s)
