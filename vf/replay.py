"""concrete replay of solver witnesses against the UNHOOKED real code (clean subprocess, no import hook)."""
import sys
import json
import importlib


def main():
    diff = sys.argv[1] == '--diff'
    if diff:
        sys.argv.pop(1)
    pid, path = sys.argv[1], sys.argv[2]
    try:
        from loguru import logger
        logger.remove()
    except Exception:
        pass
    mod = importlib.import_module('vf.checks.%s' % pid.lower())
    out = []
    if diff:
        from vf.core import _jsonable
        for c in json.load(open(path)):
            try:
                out.append(_jsonable(mod.concrete(c)))
            except Exception as e:
                out.append(['exc', type(e).__name__])
        print(json.dumps(out))
        return
    for w in json.load(open(path)):
        try:
            rep, detail = mod.replay(w)
        except Exception as e:  # a replay that cannot run is "not reproduced" (-> harness error upstream)
            import traceback
            rep, detail = False, 'replay raised %r %s' % (e, traceback.format_exc()[-800:])
        out.append(dict(reproduced=bool(rep), detail=detail))
    print(json.dumps(out))


if __name__ == '__main__':
    main()
