"""Independent resources.arsc writer used as the generator for C28 (trusted base, written from AOSP ResourceTypes.h;
shares no code with androguard).  write(table) -> (bytes, Layout with the byte offset of every field).

Model:
  table   = dict(strings=[...global value strings...], utf8=bool, packages=[package])
  package = dict(id=int, name=str, types=[type names], keys=[key names], chunks=[chunk])
  chunk   = dict(type=1-based type id, config=dict(...), layout='plain'|'offset16'|'sparse', count=int,
                 entries={index: entry})                     (indices without entry are NO_ENTRY / absent)
  entry   = dict(key=int, kind='plain', value=(type, data), flags=int)
          | dict(key=int, kind='compact', value=(type, data), flags=int)
          | dict(key=int, kind='complex', parent=int, items=[(name, (type, data))], flags=int)
  config  = dict(size=int, imsi, locale, screenType, input, screenSize, version, screenConfig, screenSizeDp,
                 localeScript=bytes4, localeVariant=bytes8, screenConfig2)      (all optional, default 0; size default 64)
"""
import struct

RES_STRING_POOL, RES_TABLE, RES_TABLE_PACKAGE, RES_TABLE_TYPE, RES_TABLE_TYPE_SPEC = 0x0001, 0x0002, 0x0200, 0x0201, 0x0202
FLAG_COMPLEX, FLAG_PUBLIC, FLAG_WEAK, FLAG_COMPACT = 1, 2, 4, 8
FLAG_SPARSE, FLAG_OFFSET16 = 1, 2
NO_ENTRY = 0xFFFFFFFF


def _len8(n):
    return bytes([n]) if n < 0x80 else bytes([0x80 | (n >> 8), n & 0xff])


def _len16(n):
    return struct.pack('<H', n) if n < 0x8000 else struct.pack('<HH', 0x8000 | (n >> 16), n & 0xffff)


def string_pool(strings, utf8):
    datas = []
    for s in strings:
        u16 = s.encode('utf-16-le', 'surrogatepass')
        if utf8:
            b = s.encode('utf-8', 'surrogatepass')
            datas.append(_len8(len(u16) // 2) + _len8(len(b)) + b + b'\0')
        else:
            datas.append(_len16(len(u16) // 2) + u16 + b'\0\0')
    offs, o = [], 0
    for d in datas:
        offs.append(o)
        o += len(d)
    blob = b''.join(datas)
    blob += b'\0' * (-len(blob) % 4)
    start = 28 + 4 * len(strings)
    return struct.pack('<HHIIIIII', RES_STRING_POOL, 28, start + len(blob), len(strings), 0, (1 << 8) if utf8 else 0, start, 0) + \
        b''.join(struct.pack('<I', x) for x in offs) + blob


CONFIG_FIELDS = ['imsi', 'locale', 'screenType', 'input', 'screenSize', 'version', 'screenConfig', 'screenSizeDp']


def config_bytes(c):
    size = c.get('size', 64)
    b = struct.pack('<I', size)
    for f in CONFIG_FIELDS:
        b += struct.pack('<I', c.get(f, 0))
    b += bytes(c.get('localeScript', b'\0' * 4)) + bytes(c.get('localeVariant', b'\0' * 8))
    b += struct.pack('<I', c.get('screenConfig2', 0))
    b += b'\0' * 12           # localeScriptWasComputed, localeNumberingSystem[8], padding
    assert len(b) == 64
    return b[:size]


def entry_bytes(e):
    fl = e.get('flags', 0)
    if e['kind'] == 'plain':
        t, d = e['value']
        return struct.pack('<HHI', 8, fl, e['key']) + struct.pack('<HBBI', 8, 0, t, d)
    if e['kind'] == 'compact':
        t, d = e['value']
        return struct.pack('<HHI', e['key'], (fl & 0xff) | FLAG_COMPACT | (t << 8), d)
    b = struct.pack('<HHI', 16, fl | FLAG_COMPLEX, e['key']) + struct.pack('<II', e.get('parent', 0), len(e['items']))
    for name, (t, d) in e['items']:
        b += struct.pack('<I', name) + struct.pack('<HBBI', 8, 0, t, d)
    return b


class Layout:
    def __init__(self):
        self.fields = {}        # name -> (offset, size)
        self.chunks = []


def write(table):
    L = Layout()
    out = bytearray(struct.pack('<HHII', RES_TABLE, 12, 0, len(table['packages'])))
    L.main_pool_at = len(out)
    out += string_pool(table['strings'], table.get('utf8', True))
    for pi, p in enumerate(table['packages']):
        pstart = len(out)
        name = p['name'].encode('utf-16-le')
        name += b'\0' * (256 - len(name))
        tsp = string_pool(p['types'], False)
        ksp = string_pool(p['keys'], True)
        hdr_size = 8 + 4 + 256 + 16 + 4          # ... + typeIdOffset
        body = bytearray()
        body += tsp + ksp
        chunk_fields = []
        # one typeSpec per type id, then its type chunks
        seen_spec = set()
        for ci, ch in enumerate(p['chunks']):
            if ch['type'] not in seen_spec:
                seen_spec.add(ch['type'])
                n = max(c['count'] for c in p['chunks'] if c['type'] == ch['type'])
                body += struct.pack('<HHI', RES_TABLE_TYPE_SPEC, 16, 16 + 4 * n) + struct.pack('<BBHI', ch['type'], 0, 0, n) + b'\0' * (4 * n)
            cstart = pstart + hdr_size + len(body)
            cfg = config_bytes(ch['config'])
            layout = ch.get('layout', 'plain')
            idxs = sorted(ch['entries'])
            blobs, eoff, o = [], {}, 0
            for i in idxs:
                eb = entry_bytes(ch['entries'][i])
                eoff[i] = o
                blobs.append(eb)
                o += len(eb)
            if layout == 'sparse':
                table_b = b''.join(struct.pack('<HH', i, eoff[i] // 4) for i in idxs)
                count = len(idxs)
            elif layout == 'offset16':
                table_b = b''.join(struct.pack('<H', eoff[i] // 4 if i in eoff else 0xFFFF) for i in range(ch['count']))
                count = ch['count']
            else:
                table_b = b''.join(struct.pack('<I', eoff.get(i, NO_ENTRY)) for i in range(ch['count']))
                count = ch['count']
            table_b += b'\0' * (-len(table_b) % 4)
            header_size = 8 + 12 + len(cfg)
            entries_start = header_size + len(table_b)
            flags = {'plain': 0, 'sparse': FLAG_SPARSE, 'offset16': FLAG_OFFSET16}[layout]
            chunk = struct.pack('<HHI', RES_TABLE_TYPE, header_size, entries_start + o) + \
                struct.pack('<BBHII', ch['type'], flags, 0, count, entries_start) + cfg + table_b + b''.join(blobs)
            tag = 'p%d.c%d' % (pi, ci)
            L.fields[tag + '.type_id'] = (cstart + 8, 1)
            L.fields[tag + '.flags'] = (cstart + 9, 1)
            L.fields[tag + '.reserved'] = (cstart + 10, 2)
            L.fields[tag + '.entry_count'] = (cstart + 12, 4)
            L.fields[tag + '.entries_start'] = (cstart + 16, 4)
            L.fields[tag + '.config.size'] = (cstart + 20, 4)
            for k, f in enumerate(CONFIG_FIELDS):
                L.fields[tag + '.config.' + f] = (cstart + 24 + 4 * k, 4)
            if len(cfg) >= 48:
                L.fields[tag + '.config.localeScript'] = (cstart + 20 + 36, 4)
                L.fields[tag + '.config.localeVariant'] = (cstart + 20 + 40, 8)
            tb = cstart + header_size
            if layout == 'sparse':
                for k, i in enumerate(idxs):
                    L.fields[tag + '.sparse%d.idx' % k] = (tb + 4 * k, 2)
                    L.fields[tag + '.sparse%d.off' % k] = (tb + 4 * k + 2, 2)
            elif layout == 'offset16':
                for i in range(count):
                    L.fields[tag + '.off%d' % i] = (tb + 2 * i, 2)
            else:
                for i in range(count):
                    L.fields[tag + '.off%d' % i] = (tb + 4 * i, 4)
            for i in idxs:
                eb = cstart + entries_start + eoff[i]
                e = ch['entries'][i]
                et = tag + '.e%d' % i
                if e['kind'] == 'compact':
                    L.fields[et + '.key'] = (eb, 2)
                    L.fields[et + '.flags'] = (eb + 2, 1)
                    L.fields[et + '.type'] = (eb + 3, 1)
                    L.fields[et + '.data'] = (eb + 4, 4)
                    continue
                L.fields[et + '.size'] = (eb, 2)
                L.fields[et + '.flags'] = (eb + 2, 2)
                L.fields[et + '.key'] = (eb + 4, 4)
                if e['kind'] == 'plain':
                    L.fields[et + '.vsize'] = (eb + 8, 2)
                    L.fields[et + '.res0'] = (eb + 10, 1)
                    L.fields[et + '.type'] = (eb + 11, 1)
                    L.fields[et + '.data'] = (eb + 12, 4)
                else:
                    L.fields[et + '.parent'] = (eb + 8, 4)
                    L.fields[et + '.count'] = (eb + 12, 4)
                    for k in range(len(e['items'])):
                        ib = eb + 16 + 12 * k
                        L.fields[et + '.i%d.name' % k] = (ib, 4)
                        L.fields[et + '.i%d.type' % k] = (ib + 7, 1)
                        L.fields[et + '.i%d.data' % k] = (ib + 8, 4)
            L.chunks.append(dict(tag=tag, at=cstart, eoff=dict(eoff), layout=layout))
            body += chunk
        phdr = struct.pack('<HHI', RES_TABLE_PACKAGE, hdr_size, hdr_size + len(body)) + struct.pack('<I', p['id']) + name + \
            struct.pack('<IIIII', hdr_size, len(p['types']), hdr_size + len(tsp), len(p['keys']), 0)
        assert len(phdr) == hdr_size
        L.fields['p%d.id' % pi] = (pstart + 8, 4)
        L.fields['p%d.name' % pi] = (pstart + 12, 256)
        out += phdr + body
    out[4:8] = struct.pack('<I', len(out))
    return bytes(out), L
