"""symbolic regex over SStr, using CPython's own regex parser for the pattern literal (DESIGN 2.4)."""
import re as real_re
import z3
try:
    import re._parser as sre_parse, re._constants as sre_c
except ImportError:  # pragma: no cover
    import sre_parse, sre_constants as sre_c
from .engine import SInt, SBool, bv, Inconclusive
from .sstr import SStr, cpt, _norm

# Unicode decimal digits (category Nd) – what `\d` means for str patterns in Python 3
_ND = None


def nd_ranges():
    global _ND
    if _ND is None:
        import unicodedata
        rs = []
        start = None
        for cp in range(0x110000):
            is_nd = unicodedata.category(chr(cp)) == 'Nd'
            if is_nd and start is None:
                start = cp
            elif not is_nd and start is not None:
                rs.append((start, cp - 1))
                start = None
        _ND = rs
    return _ND


def cat(av, ch, ascii_only=False):
    if av is sre_c.CATEGORY_DIGIT:
        if ascii_only:
            return z3.And(ch >= 48, ch <= 57)
        return z3.Or([z3.And(ch >= a, ch <= b) for a, b in nd_ranges()])
    if av is sre_c.CATEGORY_SPACE:
        from .sstr import SStr as _S
        return z3.Or([ch == k for k in _S._WS])
    raise Inconclusive("regex category %s not modelled" % av)


def in_class(items, ch):
    neg = False
    conds = []
    for op, av in items:
        if op is sre_c.NEGATE:
            neg = True
        elif op is sre_c.LITERAL:
            conds.append(ch == av)
        elif op is sre_c.RANGE:
            conds.append(z3.And(ch >= av[0], ch <= av[1]))
        elif op is sre_c.CATEGORY:
            conds.append(cat(av, ch))
        else:
            raise Inconclusive("regex class item %s" % (op,))
    c = z3.Or(conds + [z3.BoolVal(False)])
    return z3.Not(c) if neg else c


def m_seq(ops, s, starts):
    """starts: {pos: cond}; returns {end_pos: cond} for matching the op sequence"""
    cur = starts
    for op, av in ops:
        nxt = {}

        def add(p, c):
            nxt[p] = z3.Or(nxt[p], c) if p in nxt else c
        for pos, cond in cur.items():
            if op is sre_c.LITERAL:
                if pos < len(s):
                    add(pos + 1, z3.And(cond, cpt(s.c[pos]) == av))
            elif op is sre_c.NOT_LITERAL:
                if pos < len(s):
                    add(pos + 1, z3.And(cond, cpt(s.c[pos]) != av))
            elif op is sre_c.IN:
                if pos < len(s):
                    add(pos + 1, z3.And(cond, in_class(av, cpt(s.c[pos]))))
            elif op is sre_c.ANY:
                if pos < len(s):
                    add(pos + 1, z3.And(cond, cpt(s.c[pos]) != 10))
            elif op is sre_c.AT:
                if av is sre_c.AT_END:
                    if pos == len(s):
                        add(pos, cond)
                    elif pos == len(s) - 1:
                        add(pos, z3.And(cond, cpt(s.c[pos]) == 10))
                elif av is sre_c.AT_END_STRING:
                    if pos == len(s):
                        add(pos, cond)
                elif av in (sre_c.AT_BEGINNING, sre_c.AT_BEGINNING_STRING):
                    if pos == 0:
                        add(pos, cond)
                else:
                    raise Inconclusive("regex anchor %s" % av)
            elif op is sre_c.SUBPATTERN:
                for p2, c2 in m_seq(av[3], s, {pos: cond}).items():
                    add(p2, c2)
            elif op is sre_c.BRANCH:
                for alt in av[1]:
                    for p2, c2 in m_seq(alt, s, {pos: cond}).items():
                        add(p2, c2)
            elif op in (sre_c.MAX_REPEAT, sre_c.MIN_REPEAT):
                lo, hi, sub = av
                front = {pos: cond}
                k = 0
                if lo == 0:
                    add(pos, cond)
                while front and (hi is sre_c.MAXREPEAT or k < hi) and k <= len(s):
                    front = m_seq(sub, s, front)
                    k += 1
                    if k >= lo:
                        for p2, c2 in front.items():
                            add(p2, c2)
            else:
                raise Inconclusive("regex op %s not modelled" % (op,))
        cur = nxt
    return cur


class _M:
    def __init__(self, cond):
        self.cond = cond

    def __bool__(self):
        return True


PATTERNS_SEEN = []


def match_term(pat, s, full=False):
    ends = m_seq(sre_parse.parse(pat), s, {0: z3.BoolVal(True)})
    if full:
        ends = {p: c for p, c in ends.items() if p == len(s)}
    return z3.simplify(z3.Or(list(ends.values()) + [z3.BoolVal(False)]))


def search_term(pat, s):
    ops = sre_parse.parse(pat)
    conds = []
    for i in range(len(s) + 1):
        conds += list(m_seq(ops, s, {i: z3.BoolVal(True)}).values())
    return z3.simplify(z3.Or(conds + [z3.BoolVal(False)]))


def _norm_bytes(pat, s):
    """bytes patterns on symbolic byte strings: bytes are code points below 256 (latin-1 view)"""
    from .engine import SBytes
    if isinstance(s, SBytes):
        s = SStr(list(s.items))
        if isinstance(pat, (bytes, bytearray)):
            pat = bytes(pat).decode('latin-1')
    return pat, s


class SymRe:
    error = real_re.error
    IGNORECASE = real_re.IGNORECASE
    I = real_re.I
    escape = staticmethod(real_re.escape)
    findall = staticmethod(real_re.findall)
    finditer = staticmethod(real_re.finditer)
    split = staticmethod(real_re.split)

    @staticmethod
    def match(pat, s, flags=0):
        if isinstance(s, (str, bytes, bytearray)):
            return real_re.match(pat, s, flags)
        pat, s = _norm_bytes(pat, s)
        assert flags == 0
        PATTERNS_SEEN.append(pat)
        c = match_term(pat, s)
        return _M(c) if bool(SBool(c)) else None

    @staticmethod
    def fullmatch(pat, s, flags=0):
        if isinstance(s, (str, bytes, bytearray)):
            return real_re.fullmatch(pat, s, flags)
        pat, s = _norm_bytes(pat, s)
        PATTERNS_SEEN.append(pat)
        c = match_term(pat, s, full=True)
        return _M(c) if bool(SBool(c)) else None

    @staticmethod
    def search(pat, s, flags=0):
        if isinstance(s, (str, bytes, bytearray)):
            return real_re.search(pat, s, flags)
        pat, s = _norm_bytes(pat, s)
        assert flags == 0
        PATTERNS_SEEN.append(pat)
        c = search_term(pat, s)
        return _M(c) if bool(SBool(c)) else None

    @staticmethod
    def sub(pat, repl, s, count=0, flags=0):
        if isinstance(s, str):
            return real_re.sub(pat, repl, s, count, flags)
        PATTERNS_SEEN.append(pat)
        ops = sre_parse.parse(pat)
        if not (isinstance(repl, str) and len(repl) == 1 and count == 0):
            raise Inconclusive("re.sub form not modelled")
        out = []
        for i in range(len(s)):
            ends = m_seq(ops, s, {i: z3.BoolVal(True)})
            if not set(ends) <= {i + 1}:
                raise Inconclusive("re.sub: only single-character patterns are modelled")
            c = ends.get(i + 1, z3.BoolVal(False))
            out.append(_norm(z3.If(c, bv(ord(repl)), cpt(s.c[i]))))
        return SStr(out)

    @staticmethod
    def compile(pat, flags=0):
        real = real_re.compile(pat, flags)

        class C:
            pattern = pat

            def match(self, s):
                return real.match(s) if isinstance(s, (str, bytes, bytearray)) else SymRe.match(pat, s, flags)

            def search(self, s):
                return real.search(s) if isinstance(s, (str, bytes, bytearray)) else SymRe.search(pat, s, flags)

            def fullmatch(self, s):
                return real.fullmatch(s) if isinstance(s, (str, bytes, bytearray)) else SymRe.fullmatch(pat, s, flags)

            def sub(self, repl, s):
                return real.sub(repl, s) if isinstance(s, str) else SymRe.sub(pat, repl, s)

            def __getattr__(self, k):
                return getattr(real, k)
        return C()


def wrap_compiled(module):
    """module-level precompiled patterns (re.compile at import time) are re-bound to their symbolic twins"""
    for name, val in list(vars(module).items()):
        if isinstance(val, real_re.Pattern):
            setattr(module, name, SymRe.compile(val.pattern, val.flags & ~real_re.UNICODE))
