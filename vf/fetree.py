"""Stand-in for lxml.etree inside androguard.core.axml during symbolic runs (lxml is a C library: symbolic strings
cannot pass through it).  It only stores what AXMLPrinter puts in; values may be str, SStr or marker strings.
Replays use the real lxml."""


class FAttrib:
    def __init__(self):
        self.items_ = []

    def __contains__(self, k):
        for kk, _ in self.items_:
            if kk == k:
                return True
        return False

    def set(self, k, v):
        for i, (kk, _) in enumerate(self.items_):
            if kk == k:
                self.items_[i] = (kk, v)
                return
        self.items_.append((k, v))

    def items(self):
        return list(self.items_)


class FElem:
    def __init__(self, tag, nsmap=None, comment=False):
        self.tag = tag
        self.nsmap = dict(nsmap or {})
        self.attrib = FAttrib()
        self.kids = []
        self.text = None
        self.tail = None
        self.is_comment = comment

    def set(self, k, v):
        self.attrib.set(k, v)

    def append(self, e):
        self.kids.append(e)

    def __len__(self):
        return len(self.kids)

    def __getitem__(self, i):
        return self.kids[i]

    def __iter__(self):
        return iter(self.kids)

    def __bool__(self):
        return True


class FEtree:
    @staticmethod
    def Element(tag, nsmap=None, **kw):
        return FElem(tag, nsmap)

    @staticmethod
    def Comment(text=None):
        e = FElem('<!---->', comment=True)
        e.text = text
        return e

    @staticmethod
    def tostring(*a, **kw):
        raise NotImplementedError("serialisation is outside the symbolic run")


def plain(e):
    """FElem tree -> plain data in the shape of axmlw.ref_tree (comments become the `comment` of the next element)"""
    def conv(x, comment=None):
        kids = []
        pending = None
        for k in x.kids:
            if k.is_comment:
                pending = k
                continue
            kids.append(conv(k, pending.text if pending is not None else None))
            if pending is not None and pending.tail is not None:
                kids[-1]['comment_tail'] = pending.tail
            pending = None
        d = dict(tag=x.tag, attrs=dict_items(x.attrib.items()), text=x.text, kids=kids, tail=x.tail, comment=comment)
        if pending is not None:
            d['dangling_comment'] = pending.text
        return d

    def dict_items(items):
        return list(items)
    return conv(e)


def from_lxml(e):
    """real lxml element -> the same plain shape (used by replay)"""
    from lxml import etree

    def conv(x, comment=None):
        kids = []
        pending = None
        for k in x:
            if k.tag is etree.Comment:
                pending = k
                continue
            kids.append(conv(k, pending.text if pending is not None else None))
            if pending is not None and pending.tail is not None:
                kids[-1]['comment_tail'] = pending.tail
            pending = None
        d = dict(tag=x.tag, attrs=[(k, v) for k, v in x.attrib.items()], text=x.text, kids=kids, tail=x.tail, comment=comment)
        if pending is not None:
            d['dangling_comment'] = pending.text
        return d
    return conv(e)
