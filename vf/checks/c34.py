"""C34 (partial): DEX listing / multidex flag of an APK from its entry names.
Decided: get_dex_names, is_multidex, get_all_dex selection with get_files() stubbed; the regex literals of the real
functions are (i) run on symbolic names by SymRe and (ii) compared with the specified language classes[0-9]*\\.dex by
z3's regular-expression theory over unbounded strings.  Archive reading itself (apkInspector/zlib) is outside."""
import re as real_re
import sys
import time
import z3
try:
    import re._parser as sre_parse, re._constants as sre_c
except ImportError:  # pragma: no cover
    import sre_parse, sre_constants as sre_c
from ..engine import *
from ..sstr import SStr, fresh_char, cpt
from .. import symre
from ..symre import SymRe
from .. import common, hook

FUNCS = ['androguard.core.apk.APK.get_dex_names', 'APK.is_multidex', 'APK.get_all_dex', 'APK.get_dex', 'APK.get_file', 'APK.get_files']


def in_lang(name):
    return real_re.fullmatch(r'classes[0-9]*\.dex', name, real_re.ASCII) is not None and '\n' not in name


def lang_term(s):
    """z3: the SStr s (fixed length) is in classes[0-9]*\\.dex"""
    n = len(s)
    if n < 11:
        return z3.BoolVal(False)
    return z3.And(SStr(s.c[:7]).eq_term('classes'), SStr(s.c[n - 4:]).eq_term('.dex'),
                  *[z3.And(cpt(x) >= 48, cpt(x) <= 57) for x in s.c[7:n - 4]])


# ------------------------------------------------------------------ pattern literal -> z3 regular expression
def ch(c):
    return z3.Re(z3.Unit(z3.CharVal(c)))


def rng(a, b):
    return z3.Range(z3.Unit(z3.CharVal(a)), z3.Unit(z3.CharVal(b))) if a != b else ch(a)


MAXC = 0x2FFFF
ANYC = rng(0, MAXC)


def cls_to_re(items):
    neg = False
    parts = []
    for op, av in items:
        if op is sre_c.NEGATE:
            neg = True
        elif op is sre_c.LITERAL:
            parts.append(ch(av))
        elif op is sre_c.RANGE:
            parts.append(rng(av[0], av[1]))
        elif op is sre_c.CATEGORY and av is sre_c.CATEGORY_DIGIT:
            parts += [rng(a, min(b, MAXC)) for a, b in symre.nd_ranges() if a <= MAXC]
        else:
            raise Inconclusive("regex class item %s" % (op,))
    r = parts[0] if len(parts) == 1 else z3.Union(*parts)
    return z3.Intersect(ANYC, z3.Complement(r)) if neg else r


def seq_to_re(ops):
    out = []
    for op, av in ops:
        if op is sre_c.LITERAL:
            out.append(ch(av))
        elif op is sre_c.ANY:
            out.append(z3.Union(rng(0, 9), rng(11, MAXC)))
        elif op is sre_c.IN:
            out.append(cls_to_re(av))
        elif op is sre_c.SUBPATTERN:
            out.append(seq_to_re(av[3]))
        elif op is sre_c.BRANCH:
            out.append(z3.Union(*[seq_to_re(a) for a in av[1]]))
        elif op in (sre_c.MAX_REPEAT, sre_c.MIN_REPEAT):
            lo, hi, sub = av
            r = seq_to_re(sub)
            if hi is sre_c.MAXREPEAT:
                out.append(z3.Star(r) if lo == 0 else (z3.Plus(r) if lo == 1 else z3.Concat(z3.Loop(r, lo, lo), z3.Star(r))))
            else:
                out.append(z3.Loop(r, lo, hi) if (lo, hi) != (0, 1) else z3.Option(r))
        else:
            raise Inconclusive("regex op %s" % (op,))
    if not out:
        return z3.Re(z3.StringVal(''))
    return out[0] if len(out) == 1 else z3.Concat(*out)


def pattern_language(pat, mode):
    """z3 Re of the set of strings s for which re.<mode>(pat, s) succeeds (mode: match | search)"""
    ops = list(sre_parse.parse(pat))
    begin = end = None
    if ops and ops[0][0] is sre_c.AT and ops[0][1] in (sre_c.AT_BEGINNING, sre_c.AT_BEGINNING_STRING):
        begin = ops.pop(0)[1]
    if ops and ops[-1][0] is sre_c.AT and ops[-1][1] in (sre_c.AT_END, sre_c.AT_END_STRING):
        end = ops.pop()[1]
    if any(op is sre_c.AT for op, _ in ops):
        raise Inconclusive("anchor inside the pattern")
    core = seq_to_re(ops)
    star = z3.Star(ANYC)
    if end is None:
        core = z3.Concat(core, star)
    elif end is sre_c.AT_END:                       # `$` also matches before one trailing newline
        core = z3.Concat(core, z3.Option(ch(10)))
    if begin is None and mode == 'search':
        core = z3.Concat(star, core)
    return core


SPEC = z3.Concat(z3.Re(z3.StringVal('classes')), z3.Star(z3.Range(z3.StringVal('0'), z3.StringVal('9'))),
                 z3.Re(z3.StringVal('.dex')))


class FakeZip:
    """archive stub: entry i has content CONTENT[i % 3] (an empty entry included); unknown names raise KeyError"""
    CONTENT = [b'', b'\x00', b'dex\n035']

    def __init__(self, names): self.names = names
    def namelist(self): return list(self.names)

    def read(self, n):
        for i, x in enumerate(self.names):
            if x is n or (isinstance(x, str) and isinstance(n, str) and x == n):
                return self.CONTENT[i % 3]
            if not (isinstance(x, str) and isinstance(n, str)) and len(x) == len(n) and x == n:      # symbolic comparison (forks)
                return self.CONTENT[i % 3]
        raise KeyError(n)


def make_apk(apkmod, names):
    # the object is built without __init__ (which needs a real archive); private attributes that __init__ would have
    # set (caches and the like) read as None
    class _APK(apkmod.APK):
        def __getattr__(self, k):
            if k.startswith('_') and not k.startswith('__'):
                return None
            raise AttributeError(k)
    a = _APK.__new__(_APK)
    a.zip = FakeZip(names)
    return a


OTHERS = ['classes.dex', 'lib/classes2.dex', 'AndroidManifest.xml']
ABSENT = ['no/such/entry', '/classes.dex', './AndroidManifest.xml', '../classes.dex']


def job(jc, n):
    hook.install()
    from androguard.core import apk as apkmod
    apkmod.re = SymRe
    apkmod.logger = NullLogger()
    chars = [fresh_char('c%d' % i, 18) for i in range(n)]
    name = SStr(chars)
    pre = [c.e <= MAXC for c in chars]
    pre += [z3.Not(name.eq_term(o)) for o in OTHERS]            # entry names of an archive are distinct
    eng = jc.new_engine(pre=pre)
    label = 'entry name of %d symbolic characters' % n
    want = lang_term(name)

    def go():
        a = make_apk(apkmod, [name] + OTHERS)
        names = list(a.get_dex_names())
        multi = a.is_multidex()
        datas = list(a.get_all_dex())
        # get_file: present entries (also the empty one) return their content, a missing one raises FileNotPresent
        files = [a.get_file(name), a.get_file('classes.dex'), a.get_file('AndroidManifest.xml')]
        missing = []
        # names that are not in the archive (unless the symbolic entry happens to be that very name), among them names that
        # only differ from an entry by leading dots / slashes
        for absent in ABSENT + ['/' + name, './' + name]:
            try:
                a.get_file(absent)
                missing.append(True)
            except apkmod.FileNotPresent:
                missing.append(False)
        # the listing is asked a second time on the same object
        names2 = list(a.get_dex_names())
        datas2 = list(a.get_all_dex())
        same = [x is y for x, y in zip(names, names2)] == [True] * len(names) and len(names) == len(names2) and datas2 == datas
        return [x is name for x in names], [x for x in names if x is not name], multi, datas, files, missing, same

    def ext(m):
        return dict(kind='name', name=name.concrete(m))
    for pc, (kind, r) in eng.explore(go, keep_pcs=True):
        jc.reached('explored')
        if kind == 'exc':
            jc.obligation(eng, pc, z3.BoolVal(False), ext, label=label, what='raised %r' % (r,))
            continue
        flags, rest, multi, datas, files, missing, same = r
        listed = any(flags)
        obs = {'listed iff root-level classes[0-9]*.dex': want == z3.BoolVal(listed),
               'other entries': z3.BoolVal(rest == ['classes.dex']),
               'is_multidex': z3.BoolVal(multi) == want,        # classes.dex is always present -> multidex iff name is a dex
               'get_all_dex reads exactly the listed names': z3.BoolVal(
                   datas == ([FakeZip.CONTENT[0]] if listed else []) + [FakeZip.CONTENT[1]]),
               'second listing on the same object equals the first': z3.BoolVal(same),
               'get_file returns the entry content': z3.BoolVal(files == [FakeZip.CONTENT[0], FakeZip.CONTENT[1], FakeZip.CONTENT[0]]),
               'get_file of an absent name raises FileNotPresent': z3.And(
                   [z3.Or(name.eq_term(lit), z3.BoolVal(not ret)) for lit, ret in zip(ABSENT, missing)] +
                   [z3.BoolVal(not ret) for ret in missing[len(ABSENT):]])}
        jc.obligations(eng, pc, obs, ext, label=label, what='%s: violated')
    eng.partition_guard()
    jc.sample(dict(case=label, paths=eng.st.paths))


def run(ctx):
    hook.install()
    from androguard.core import apk as apkmod
    apkmod.re = SymRe
    ctx.functions_encoded = FUNCS
    ns = list(range(0, 17)) if ctx.thorough else [0, 5, 10, 11, 12, 13, 14]
    ctx.bounds = dict(symbolic_name_lengths=ns, other_entries=OTHERS,
                      regex_language='unbounded strings (z3 sequence/regex theory), characters up to U+2FFFF')
    ctx.stubs = ['APK built with __new__, zip.namelist()/read() stubbed (archive reading is outside the claim)',
                 'SymRe for re.compile/match/search on symbolic names']
    ctx.assumptions = ['specified language: classes[0-9]*\\.dex (ASCII digits) as a whole entry name at the archive root']
    ctx.outside_claim = ['get_files / get_file / FileNotPresent: apkInspector + zlib (third-party, C) cannot be encoded',
                         'characters above U+2FFFF in the regex-language comparison']
    cases = [['classes.dex'], ['classes2.dex', 'classes.dex'], ['classes2xdex', 'classes.dex'], ['classes.dex\n'],
             ['a/classes.dex'], ['classes10.dex', 'classes2.dex', 'x'], ['classes١.dex', 'classes.dex'], []]
    ctx.diff_unhooked(sys.modules[__name__], cases)
    ctx.pmap(job, ns)
    # ---- (ii) the regex literals seen while running the real functions, compared with the spec over unbounded strings
    symre.PATTERNS_SEEN.clear()
    a = make_apk(apkmod, [SStr.of('classes.dex')])
    set_engine(Engine())
    list(a.get_dex_names())
    pats = [('match', p) for p in dict.fromkeys(symre.PATTERNS_SEEN)]
    symre.PATTERNS_SEEN.clear()
    a.is_multidex()
    pats += [('search', p) for p in dict.fromkeys(symre.PATTERNS_SEEN)]
    if len(pats) < 2:
        raise Inconclusive("regex literals of get_dex_names / is_multidex not observed")
    ctx.info['regex_literals'] = [list(p) for p in pats]
    for mode, pat in pats:
        L = pattern_language(pat, mode)
        x = z3.String('x')
        for direction, f in (('accepted by the code, not a dex name', z3.And(z3.InRe(x, L), z3.Not(z3.InRe(x, SPEC)))),
                             ('dex name rejected by the code', z3.And(z3.InRe(x, SPEC), z3.Not(z3.InRe(x, L))))):
            s = z3.Solver()
            s.set('timeout', SOLVER_TIMEOUT_MS)
            s.add(f)
            t = time.time()
            r = s.check()
            ctx.stats.queries += 1
            ctx.stats.obligations += 1
            ctx.stats.solver_s += time.time() - t
            if str(r) == 'unsat':
                ctx.stats.unsat += 1
                ctx.stats.discharged += 1
            elif str(r) == 'sat':
                ctx.stats.sat += 1
                w = s.model()[x].as_string()
                w = real_re.sub(r'\\u\{([0-9a-fA-F]+)\}', lambda mm: chr(int(mm.group(1), 16)), w)
                ctx.add_witness(None, dict(kind='regex', name=w, mode=mode), 'regex language: ' + pat, direction)
            else:
                ctx.stats.unknown += 1
    ctx.sample(dict(regex_language_queries=[list(p) for p in pats]))


def concrete(c):
    from androguard.core import apk as apkmod
    a = make_apk(apkmod, c)
    out = [list(a.get_dex_names()), a.is_multidex(), [bytes(x).hex() for x in a.get_all_dex()]]
    for n in list(c) + ['missing']:
        try:
            out.append(bytes(a.get_file(n)).hex())
        except apkmod.FileNotPresent:
            out.append('FileNotPresent')
    return out


def replay(w):
    from androguard.core import apk as apkmod
    name = w['name']
    names = [name] + OTHERS
    try:
        a = make_apk(apkmod, names)
        got = list(a.get_dex_names())
        multi = a.is_multidex()
    except Exception as e:
        return True, 'entry %r raised %r' % (name, e)
    exp = [n for n in names if in_lang(n)]
    try:
        files = [a.get_file(n) for n in names]
        datas = list(a.get_all_dex())
    except Exception as e:
        return True, 'entries %r: reading a present entry raised %r' % (names, e)
    want = [FakeZip.CONTENT[i % 3] for i in range(len(names))]
    if files != want or datas != [want[names.index(n)] for n in exp]:
        return True, 'entries %r: get_file/get_all_dex returned %r / %r, archive holds %r' % (names, files, datas, want)
    got2, datas2 = list(a.get_dex_names()), list(a.get_all_dex())
    if got2 != got or datas2 != datas:
        return True, 'entries %r: the second listing on the same APK object is %r / %r, the first was %r / %r' % (names, got2, datas2, got, datas)
    for absent in ABSENT + ['/' + name, './' + name]:
        if absent in names:
            continue
        try:
            r = a.get_file(absent)
            return True, 'entries %r: get_file(%r) returned %r, there is no such entry' % (names, absent, r)
        except apkmod.FileNotPresent:
            pass
    return got != exp or multi != (len(exp) > 1), 'entries %r: get_dex_names=%r is_multidex=%r, expected %r / %r' % (
        names, got, multi, exp, len(exp) > 1)
