"""C15: see vf/xref.py (shared skeleton / cross-reference harness; this module selects the obligations of C15)."""
from .. import xref


def run(ctx):
    xref.run(ctx, 'C15')


concrete = xref.concrete
replay = xref.replay
