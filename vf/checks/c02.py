"""C02 linear sweep: step lemma of LinearSweepAlgorithm.get_instructions on fully symbolic code bytes (every first
code unit, truncation at every remaining length) + exact recovery of assembled streams with symbolic operands."""
import sys
import random
import z3
from ..engine import *
from .. import engine as E
from .. import common
from .c01 import FMT, UNUSED, flen, StubCM

FUNCS = ['androguard.core.dex.LinearSweepAlgorithm.get_instructions', 'get_instruction', 'get_instruction_payload',
         'PackedSwitch', 'SparseSwitch', 'FillArrayData', 'Instruction*.__init__/get_length/get_raw', 'DCode.get_instructions']


# ------------------------------------------------------------------ concrete spec: first instruction of a buffer
def spec_first(bs):
    """('ok', length) | ('invalid',) | ('either', length) for the instruction starting at bs[0] with len(bs) bytes left"""
    if len(bs) < 2:
        return ('invalid',)
    op, hi = bs[0], bs[1]
    unit = op | hi << 8
    if unit in (0x0100, 0x0200, 0x0300):
        if unit == 0x0100:
            if len(bs) < 8:
                return ('invalid',)
            n = 8 + 4 * int.from_bytes(bs[2:4], 'little')
        elif unit == 0x0200:
            if len(bs) < 4:
                return ('invalid',)
            n = 4 + 8 * int.from_bytes(bs[2:4], 'little')
        else:
            if len(bs) < 8:
                return ('invalid',)
            w = int.from_bytes(bs[2:4], 'little')
            s = int.from_bytes(bs[4:8], 'little')
            n = 8 + 2 * ((s * w + 1) // 2)
        return ('ok', n) if n <= len(bs) else ('invalid',)
    if op in UNUSED:
        return ('invalid',)
    f = FMT[op]
    n = flen(f)
    if n > len(bs):
        return ('invalid',)
    if f in ('10x', '20t', '30t', '32x') and hi != 0:
        return ('either', n)
    if f in ('35c', '45cc') and (hi >> 4) > 5:
        return ('either', n)
    return ('ok', n)


def spec_sweep(bs):
    """independent sweep: list of (offset, length) and the offset where it stopped (None = clean end)"""
    out = []
    i = 0
    while i < len(bs):
        r = spec_first(bs[i:])
        if r[0] == 'invalid':
            return out, i
        out.append((i, r[1]))
        i += r[1]
    return out, None


def observe_sweep(dex, bs, size_units):
    cm = StubCM(dex)
    out = []
    try:
        idx = 0
        for ins in dex.LinearSweepAlgorithm.get_instructions(cm, size_units, bs, 0):
            out.append([idx, ins.get_length(), bytes(ins.get_raw()).hex()])
            idx += ins.get_length()
            if len(out) > 4 * len(bs) + 4:
                return out, 'nontermination'
        return out, None
    except dex.InvalidInstruction:
        return out, 'invalid'
    except Exception as e:
        return out, 'exception:' + type(e).__name__


# ------------------------------------------------------------------ (a) step lemma
def job_step(jc, L):
    dex = common.dexmod()
    cm = StubCM(dex)
    E.RANGE_CAP[0] = 40
    B = [fresh_byte('b%d' % i) for i in range(L)]
    buf = SBytes(B)
    eng = jc.new_engine()
    label = 'step L=%d' % L
    unit = B[0].e | (B[1].e << 8)
    op, hi = B[0].e, B[1].e

    def u16(i):
        return B[i].e | (B[i + 1].e << 8)

    def u32(i):
        return B[i].e | (B[i + 1].e << 8) | (B[i + 2].e << 16) | (B[i + 3].e << 24)

    def go():
        gen = dex.LinearSweepAlgorithm.get_instructions(cm, L // 2, buf, 0)
        try:
            ins = next(gen)
        except StopIteration:
            return ('stop',)
        except dex.InvalidInstruction:
            return ('invalid',)
        ln = ins.get_length()
        raw = ins.get_raw()
        return ('ok', ln, raw, type(ins).__name__)

    def ext(m):
        return dict(kind='step', bytes=mbytes(m, B).hex())
    # spec terms
    is_ps, is_ss, is_fa = unit == 0x0100, unit == 0x0200, unit == 0x0300
    payload = z3.Or(is_ps, is_ss, is_fa)
    ps_len = 8 + 4 * u16(2) if L >= 4 else None
    ss_len = 4 + 8 * u16(2) if L >= 4 else None
    fa_len = (8 + 2 * (((u32(4) * u16(2)) + 1) / 2)) if L >= 8 else None      # unsigned division, operands non-negative

    def spec_len():
        e = z3.BitVecVal(0, W)
        for o in range(256):
            if o not in UNUSED:
                e = z3.If(op == o, z3.BitVecVal(flen(FMT[o]), W), e)
        if ps_len is not None:
            e = z3.If(is_ps, ps_len, e)
            e = z3.If(is_ss, ss_len, e)
        if fa_len is not None:
            e = z3.If(is_fa, fa_len, e)
        return e
    SL = spec_len()
    unused = z3.And(z3.Not(payload), z3.Or([op == o for o in sorted(UNUSED)]))
    lenient = z3.And(z3.Not(payload), z3.Or(
        z3.And(z3.Or([op == o for o in FMT if FMT[o] in ('10x', '20t', '30t', '32x')]), hi != 0),
        z3.And(z3.Or([op == o for o in FMT if FMT[o] in ('35c', '45cc')]), (hi >> 4) > 5)))
    hdr_short = z3.Or(z3.And(is_ps, z3.BoolVal(L < 8)), z3.And(is_ss, z3.BoolVal(L < 4)), z3.And(is_fa, z3.BoolVal(L < 8)))
    must_reject = z3.Or(unused, hdr_short, z3.And(z3.Not(hdr_short), SL > L))
    regions = {'c02_ff_with_register': z3.And(op == 0xff, hi != 0),
               'c02_truncated_payload': z3.And(payload, z3.Or(hdr_short, SL > L))}
    for pc, (kind, r) in eng.explore(go, keep_pcs=True):
        jc.reached('step')
        if kind == 'exc':
            jc.obligation(eng, pc, z3.BoolVal(False), ext, regions, label=label, what='sweep raised %r' % (r,))
            continue
        if r[0] == 'stop':
            jc.obligation(eng, pc, z3.BoolVal(L < 2), ext, regions, label=label, what='sweep stopped before the end of the code')
            continue
        if r[0] == 'invalid':
            jc.obligation(eng, pc, z3.Or(must_reject, lenient), ext, regions, label=label + ':rejected',
                          what='valid instruction reported as invalid')
            continue
        _, ln, raw, cls = r
        obs = {'instruction must have been rejected': z3.Not(must_reject),
               'length': z3.And(bv(ln) == SL, bv(ln) > 0, bv(ln) <= L)}
        jc.obligations(eng, pc, obs, ext, regions, label=label, what='%s (yielded instruction)')
        # re-encoding: compare under the path's own length (payload lengths are pinned by the slice concretisation;
        # where they are not, the length obligation above has already failed)
        lnv = ln if isinstance(ln, int) else None
        if lnv is None:
            m = eng.solve(pc)
            cand = mval(m, ln)
            if eng.solve(pc, [bv(ln) != cand]) is None:
                lnv = cand
        if lnv is not None and 0 < lnv <= L:
            jc.obligation(eng, pc, beq(list(raw), B[:lnv]), ext, regions, label=label + ':get_raw',
                          what='get_raw() differs from the code bytes at the instruction')
    eng.partition_guard()
    jc.sample(dict(step_buffer_bytes=L, paths=eng.st.paths))


def job_dcode(jc, L):
    """DCode.get_instructions asked twice on the same object: [return-void][L symbolic bytes].  Whatever the first call does
    (a stream that covers the code, or InvalidInstruction), the second call must do the same - a failed sweep must not
    leave a partial stream behind"""
    dex = common.dexmod()
    cm = StubCM(dex)
    E.RANGE_CAP[0] = 40
    B = [fresh_byte('b%d' % i) for i in range(L)]
    buf = SBytes([0x0e, 0x00] + B)
    eng = jc.new_engine()
    label = 'DCode asked twice, L=%d' % L

    def outcome(d):
        try:
            return ('ok', [(type(i).__name__, i.get_length()) for i in d.get_instructions()])
        except dex.InvalidInstruction:
            return ('invalid', None)

    def go():
        d = dex.DCode(cm, 0, (L + 2) // 2, buf)
        return outcome(d), outcome(d)

    def ext(m):
        return dict(kind='dcode', bytes=mbytes(m, B).hex())
    for pc, (kind, r) in eng.explore(go, keep_pcs=True):
        jc.reached('dcode')
        if kind == 'exc':
            jc.obligation(eng, pc, z3.BoolVal(False), ext, label=label, what='raised %r' % (r,))
            continue
        a, b = r
        same = a[0] == b[0] and (a[0] == 'invalid' or (len(a[1]) == len(b[1]) and all(x[0] == y[0] for x, y in zip(a[1], b[1]))))
        terms = [z3.BoolVal(same)]
        if same and a[0] == 'ok':
            terms += [bv(x[1]) == bv(y[1]) for x, y in zip(a[1], b[1])]
            tot = bv(0)
            for x in a[1]:
                tot = tot + bv(x[1])
            terms.append(tot == L + 2)
        jc.obligation(eng, pc, z3.And(terms), ext, label=label,
                      what='second disassembly of the same code differs from the first (%s then %s)' % (a[0], b[0]))
    eng.partition_guard()
    jc.sample(dict(dcode_symbolic_bytes=L, paths=eng.st.paths))


# ------------------------------------------------------------------ (b) assembled streams with symbolic operands
def make_stream(rnd, k):
    ops = []
    valid = [o for o in range(256) if o not in UNUSED]
    for _ in range(k):
        ops.append(rnd.choice(valid))
    return ops


def job_stream(jc, spec):
    dex = common.dexmod()
    cm = StubCM(dex)
    E.RANGE_CAP[0] = 40
    ops, payload_kind, tag = spec
    items = []
    pre = []
    want = []
    sym = []
    for j, o in enumerate(ops):
        n = flen(FMT[o])
        bs = [fresh_byte('s%d_%d' % (j, i)) for i in range(n - 1)]
        sym += bs
        f = FMT[o]
        if f in ('10x', '20t', '30t', '32x'):
            pre.append(bs[0].e == 0)
        if f in ('35c', '45cc'):
            pre.append((bs[0].e >> 4) <= 5)
        want.append((len(items), n))
        items += [o] + bs
    if payload_kind:
        if len(items) % 4:
            want.append((len(items), 2))
            items += [0, 0]                      # nop padding to 4-byte alignment
        if payload_kind == 'packed':
            body = [fresh_byte('p%d' % i) for i in range(4 + 8)]
            pl = [0x00, 0x01, 2, 0] + body
        elif payload_kind == 'sparse':
            body = [fresh_byte('p%d' % i) for i in range(16)]
            pl = [0x00, 0x02, 2, 0] + body
        else:
            body = [fresh_byte('p%d' % i) for i in range(6)]
            pl = [0x00, 0x03, 2, 0, 3, 0, 0, 0] + body      # 3 elements of width 2 (+ padding byte pair)
        sym += body
        want.append((len(items), len(pl)))
        items += pl
    eng = jc.new_engine(pre=pre)
    label = 'stream ' + tag

    def go():
        out = []
        idx = 0
        for ins in dex.LinearSweepAlgorithm.get_instructions(cm, len(items) // 2, SBytes(items), 0):
            ln = ins.get_length()
            out.append((idx, ln, ins.get_raw()))
            idx = idx + ln
            if len(out) > len(items):
                raise UnwindExceeded("sweep yields more instructions than there are code bytes")
        return out

    def ext(m):
        return dict(kind='stream', bytes=bytes(mval(m, x) for x in items).hex())
    regions = {'c02_ff_with_register': z3.BoolVal(0xff in ops), 'c02_truncated_payload': z3.BoolVal(False)}
    for pc, (kind, r) in eng.explore(go, keep_pcs=True):
        jc.reached('stream')
        if kind == 'exc':
            jc.obligation(eng, pc, z3.BoolVal(False), ext, regions, label=label,
                          what='assembled stream not recovered: %s' % type(r).__name__)
            continue
        ok = [z3.BoolVal(len(r) == len(want))]
        for (i, ln, raw), (wi, wn) in zip(r, want):
            ok += [bv(i) == wi, bv(ln) == wn, beq(list(raw), items[wi:wi + wn])]
        jc.obligation(eng, pc, z3.And(ok), ext, regions, label=label,
                      what='disassembly differs from the assembled instruction stream')
    eng.partition_guard()
    jc.sample(dict(stream=[hex(o) for o in ops], payload=payload_kind, symbolic_bytes=len(sym)))


def _dispatch(jc, spec):
    if spec[0] == 'step':
        return job_step(jc, spec[1])
    if spec[0] == 'dcode':
        return job_dcode(jc, spec[1])
    return job_stream(jc, spec[1])


def run(ctx):
    common.dexmod()
    ctx.functions_encoded = FUNCS
    Ls = [2, 4, 6, 8, 10, 12, 16, 20] + ([14, 18, 24] if ctx.thorough else [])
    rnd = random.Random(ctx.seed)
    nstreams = 120 if ctx.thorough else 24
    streams = []
    for i in range(nstreams):
        ops = make_stream(rnd, rnd.randrange(1, 5))
        if i % 4 == 0:
            ops[0] = rnd.choice([0xfe, 0xff])
        streams.append((ops, [None, 'packed', 'sparse', 'fill'][i % 4], '%d' % i))
    ctx.bounds = dict(dcode_twice='[return-void] + 2 (thorough: 4) symbolic bytes through DCode.get_instructions twice on one object',
                      step_lemma='first instruction of a buffer of L fully symbolic bytes, L in %s (all 65536 first code units, '
                                 'truncation at every L)' % Ls,
                      payloads='declared sizes are symbolic; unwinding cap 40 elements',
                      streams='%d seeded streams of 1..4 valid opcodes (+ optional aligned payload) with all operand bytes symbolic' % nstreams)
    ctx.stubs = ['SymStruct', 'ClassManager stub (no ODEX)']
    ctx.assumptions = ['induction: the sweep is a sequence of steps from even offsets, so the step lemma at every remaining '
                       'length gives termination, containment and re-encoding for whole buffers',
                       'DESIGN 5a leniency: non-zero unused byte / argument count > 5 may be rejected or decoded']
    ctx.outside_claim = ['ODEX mode', 'payloads declaring more than 40 elements inside the buffer']
    cases = ['0e00', '1200', 'ff010000', 'fe000100', '00010300' + '00' * 4, '00010100' + '00' * 8, '0003020003000000aabbccddeeff',
             '00030200030000aabb', '3e00', '1b0001000000', '0002010001000000' '05000000', '7100', '00020100', 'ff00']
    cases += [rnd.randbytes(rnd.randrange(2, 14) * 2).hex() for _ in range(60)]
    ctx.diff_unhooked(sys.modules[__name__], cases)
    jobs = [('step', L) for L in Ls] + [('stream', s) for s in streams] + [('dcode', L) for L in ([2] + ([4] if ctx.thorough else []))]
    ctx.expect_reach(['step', 'stream', 'dcode'])
    ctx.pmap(_dispatch, jobs)


def concrete(c):
    from androguard.core import dex
    bs = bytes.fromhex(c)
    out, end = observe_sweep(dex, bs, len(bs) // 2)
    return [out, end]


def replay(w):
    from androguard.core import dex
    if w.get('kind') == 'dcode':
        bs = b'\x0e\x00' + bytes.fromhex(w['bytes'])
        d = dex.DCode(StubCM(dex), 0, len(bs) // 2, bs)
        outs = []
        for _ in range(2):
            try:
                outs.append(['ok', [[type(i).__name__, i.get_length()] for i in d.get_instructions()]])
            except dex.InvalidInstruction:
                outs.append(['invalid', None])
        return outs[0] != outs[1], 'code %s: first disassembly %r, second disassembly of the same DCode %r' % (bs.hex(), outs[0], outs[1])
    bs = bytes.fromhex(w['bytes'])
    got, end = observe_sweep(dex, bs, len(bs) // 2)
    exp, stop = spec_sweep(bs)
    bad = []
    if end not in (None, 'invalid'):
        bad.append('sweep ended with %s' % end)
    # every yielded instruction must lie inside the code and re-encode to the bytes at its offset
    for off, ln, raw in got:
        if ln <= 0 or off + ln > len(bs):
            bad.append('instruction at %d has length %d beyond the %d code bytes' % (off, ln, len(bs)))
        elif raw != bs[off:off + ln].hex():
            bad.append('get_raw at %d is %s, code bytes are %s' % (off, raw, bs[off:off + ln].hex()))
    # prefix agreement with the specification sweep (first instruction in 'step' witnesses)
    n = 1 if w['kind'] == 'step' else len(exp)
    for k in range(n):
        r = spec_first(bs[exp[k][0]:]) if k < len(exp) else None
        if k >= len(exp):
            break
        if k >= len(got):
            if r[0] == 'ok':
                bad.append('valid instruction at %d (length %d) was not yielded (sweep end: %s)' % (exp[k][0], exp[k][1], end))
            break
        if got[k][0] != exp[k][0] or got[k][1] != exp[k][1]:
            bad.append('instruction %d: offset/length %r, specification %r' % (k, got[k][:2], exp[k]))
            break
    if w['kind'] == 'step' and not exp and got:
        r = spec_first(bs)
        if r[0] == 'invalid':
            bad.append('invalid first instruction was yielded: %r' % (got[0],))
    if w['kind'] == 'stream' and (end is not None or len(got) != len(exp)):
        bad.append('stream of %d instructions recovered as %d (%s)' % (len(exp), len(got), end))
    return bool(bad), 'code %s: %s' % (w['bytes'][:48], '; '.join(bad[:3]))
