"""C24 type names: decompiler.util.get_type and core.dex.get_type on symbolic class descriptors."""
import sys
import z3
from ..engine import *
from ..sstr import SStr, fresh_char, SymDict, cpt
from .. import common, hook

REPLAY_ISOLATED = True
SYMKEYS = ('androguard.decompiler.util', 'androguard.core.dex')
FUNCS = ['androguard.decompiler.util.get_params_type', 'androguard.decompiler.util.get_type', 'androguard.core.dex.get_type', 'TYPE_DESCRIPTOR (both modules)']
PRIM = {'V': 'void', 'Z': 'boolean', 'B': 'byte', 'S': 'short', 'C': 'char', 'I': 'int', 'J': 'long', 'F': 'float',
        'D': 'double'}


def ref_names(desc):
    """set of accepted Java names for a descriptor"""
    d = 0
    while desc.startswith('['):
        d += 1
        desc = desc[1:]
    if desc in PRIM:
        return {PRIM[desc] + '[]' * d}
    body = desc[1:-1]
    out = {body.replace('/', '.') + '[]' * d}
    if body.startswith('java/lang/') and '/' not in body[10:] and len(body) > 10:
        out.add(body[10:] + '[]' * d)
    return out


def job(jc, spec):
    which, n, dims = spec
    hook.install(symkeys=SYMKEYS)
    if which == 'decompiler':
        from androguard.decompiler import util as mod
    else:
        mod = common.dexmod()
    if not isinstance(mod.TYPE_DESCRIPTOR, SymDict):
        mod.TYPE_DESCRIPTOR = SymDict(mod.TYPE_DESCRIPTOR)
    mod.logger = NullLogger()
    body = [fresh_char('b%d' % i, 16) for i in range(n)]
    pre = []
    for i, c in enumerate(body):
        pre.append(z3.And(c.e != ord('.'), c.e != ord(';'), c.e != ord('['), c.e >= 0x21, c.e != 0x7f))
        if i == 0 or i == n - 1:
            pre.append(c.e != ord('/'))
        if i > 0:
            pre.append(z3.Not(z3.And(c.e == ord('/'), body[i - 1].e == ord('/'))))
    desc = SStr([ord('[')] * dims + [ord('L')] + body + [ord(';')])
    # history: the same class was rendered with another number of dimensions just before (replays do the same)
    hdims = 2 if dims == 1 else 1
    hdesc = SStr([ord('[')] * hdims + [ord('L')] + body + [ord(';')])
    dotted = SStr([_dot(c) for c in body] + [ord('['), ord(']')] * dims)
    JL = 'java/lang/'
    direct = z3.BoolVal(False)
    simple = None
    if n > len(JL):
        direct = z3.And([body[i].e == ord(ch) for i, ch in enumerate(JL)] +
                        [body[i].e != ord('/') for i in range(len(JL), n)])
        simple = SStr(body[len(JL):] + [ord('['), ord(']')] * dims)
    eng = jc.new_engine(pre=pre)
    label = '%s len%d dims%d' % (which, n, dims)

    def ext(m):
        return dict(fn=which, descriptor=desc.concrete(m), before=hdesc.concrete(m))

    def go():
        try:
            mod.get_type(hdesc)
        except Exception:
            pass
        return mod.get_type(desc)
    regions = {'c24_lstrip_charset': z3.And([body[i].e == ord(ch) for i, ch in enumerate('java/lang') if i < n] +
                                            [z3.BoolVal(n >= 9)])}
    for pc, (kind, r) in eng.explore(go, keep_pcs=True):
        jc.reached('%s:class' % which)
        if kind == 'exc':
            jc.obligation(eng, pc, z3.BoolVal(False), ext, regions, label=label, what='raised %r' % (r,))
            continue
        if isinstance(r, str):
            r = SStr.of(r)
        if not isinstance(r, SStr):
            jc.obligation(eng, pc, z3.BoolVal(False), ext, regions, label=label, what='returned %r' % (r,))
            continue
        ok = r.eq_term(dotted)
        if simple is not None:
            ok = z3.Or(ok, z3.And(direct, r.eq_term(simple)))
        jc.obligation(eng, pc, ok, ext, regions, label=label,
                      what='rendered name is neither the dotted name nor the java.lang simple name')
    eng.partition_guard()
    if n in (1, 11):
        jc.sample(dict(function=which, body_chars=n, dims=dims, paths=eng.st.paths))


def _dot(c):
    e = z3.simplify(z3.If(c.e == ord('/'), z3.BitVecVal(ord('.'), W), c.e))
    return e.as_long() if z3.is_bv_value(e) else SInt(e, 0, 0xFFFF)


def run(ctx):
    ctx.functions_encoded = FUNCS
    maxn = 16 if ctx.thorough else 13
    ctx.bounds = dict(class_body='1..%d symbolic characters (any BMP character except . ; [ controls; / only as a '
                                 'separator of non-empty segments)' % maxn, array_dims='0..2', primitives='all 9, dims 0..2')
    ctx.stubs = ['SStr', 'SymDict for TYPE_DESCRIPTOR (a symbolic string cannot be hashed)', 'NullLogger',
                 'symbolic-key overlay for other dictionaries of the two modules (reset per path)',
                 'history: the same class with another number of dimensions is rendered first']
    ctx.assumptions = ['accepted renderings: the fully qualified dotted name, or the simple name iff the class is a direct '
                       'member of java.lang; one [] per dimension (DESIGN 5a: keeping java.lang. is not penalised)']
    ctx.outside_claim = ['class names longer than %d characters' % maxn, 'the size argument of get_type']
    hook.install(symkeys=SYMKEYS)
    ctx.diff_unhooked(sys.modules[__name__], diff_cases())
    # primitives: finite, compared concretely on the hooked module (identical to unhooked by the line above)
    for w in ('decompiler', 'dex'):
        for p in PRIM:
            for d in range(3):
                desc = '[' * d + p
                got = concrete([w, desc])
                if got not in ref_names(desc):
                    ctx.concrete_violation(dict(fn=w, descriptor=desc), label='primitive', what='%r -> %r' % (desc, got))
                ctx.validated += 1
    # parameter lists: get_params_type must return the parameters as written, each rendered by get_type
    # (enumeration of concrete descriptors through the real function, no solver query)
    from androguard.decompiler import util
    lists, toks, small = params_lists()
    nbad = 0
    for i, L in enumerate(lists):
        desc = '(' + ' '.join(L) + ')V'
        ctx.validated += 1
        if not params_ok(util, desc, L) and nbad < 5:
            nbad += 1
            # `index`: the replay renders the same descriptors in the same order first (process history)
            ctx.concrete_violation(dict(fn='params', descriptor=desc, index=i), label='parameter list',
                                   what='get_params_type / get_type do not render the parameters of %s' % desc)
    ctx.bounds['parameter_lists'] = '%d descriptors: 0..2 parameters over %d types (9 primitives / classes, 0..3 dimensions), 3 over %d' % (
        len(lists), len(toks), len(small))
    jobs = [(w, n, d) for w in ('decompiler', 'dex') for n in range(1, maxn + 1) for d in ((0, 1, 2) if n in (1, 11, 12) else (0,))]
    ctx.expect_reach(['decompiler:class', 'dex:class'])
    ctx.pmap(job, jobs)


def diff_cases():
    cases = ['I', '[J', '[[Z', 'Ljava/lang/String;', 'Ljava/lang/annotation/Foo;', 'Ljava/language/X;', 'Ljavax/a/B;',
             '[Ljava/lang/Object;', 'La;', 'Ljava/langv;', 'Ljava/lang/Thread$State;', 'V']
    return [[w, c] for w in ('decompiler', 'dex') for c in cases]


def process_history(upto=None):
    """what run() asks of the real functions, in order, before the symbolic jobs are forked: replays repeat it, so that
    a witness which depends on state kept between calls meets the same state"""
    from androguard.decompiler import util
    for c in diff_cases() + [[w, '[' * d + p_] for w in ('decompiler', 'dex') for p_ in PRIM for d in range(3)]:
        try:
            concrete(c)
        except Exception:
            pass
    lists = params_lists()[0]
    for prev in lists[:len(lists) if upto is None else upto]:
        params_ok(util, '(' + ' '.join(prev) + ')V', prev)


def params_lists():
    toks = ['[' * d + b for d in range(4) for b in list('ZBSCIJFD') + ['La/B;', 'Ljava/lang/String;', 'Ljava/lang/a/B;']]
    small = ['[' * d + b for d in range(4) for b in ('I', 'La/B;')]
    lists = [[]] + [[a] for a in toks] + [[a, b] for a in toks for b in toks] + [[a, b, c] for a in small for b in small for c in small]
    return lists, toks, small


def params_ok(util, desc, L):
    try:
        got = util.get_params_type(desc)
        return list(got) == L and all(util.get_type(g) in ref_names(t) for g, t in zip(got, L))
    except Exception:
        return False


def concrete(c):
    w, desc = c
    if w == 'decompiler':
        from androguard.decompiler import util as mod
    else:
        from androguard.core import dex as mod
    return mod.get_type(desc)


def replay(w):
    desc = w['descriptor']
    if w['fn'] == 'params':
        from androguard.decompiler import util
        L = desc[1:desc.index(')')].split()
        process_history(w.get('index', 0))
        try:
            got = [util.get_type(g) for g in util.get_params_type(desc)]
        except Exception as e:
            got = repr(e)
        return not params_ok(util, desc, L), 'parameters of %s are rendered as %r' % (desc, got)
    try:
        process_history()
        if w.get('before'):
            try:
                concrete([w['fn'], w['before']])
            except Exception:
                pass
        got = concrete([w['fn'], desc])
    except Exception as e:
        return True, '%s.get_type(%r) raised %r' % (w['fn'], desc, e)
    return got not in ref_names(desc), '%s.get_type(%r) = %r, accepted %r' % (w['fn'], desc, got, sorted(ref_names(desc)))
