"""C24 type names: decompiler.util.get_type and core.dex.get_type on symbolic class descriptors."""
import sys
import z3
from ..engine import *
from ..sstr import SStr, fresh_char, SymDict, cpt
from .. import common, hook

FUNCS = ['androguard.decompiler.util.get_type', 'androguard.core.dex.get_type', 'TYPE_DESCRIPTOR (both modules)']
PRIM = {'V': 'void', 'Z': 'boolean', 'B': 'byte', 'S': 'short', 'C': 'char', 'I': 'int', 'J': 'long', 'F': 'float',
        'D': 'double'}


def ref_names(desc):
    """set of accepted Java names for a descriptor"""
    d = 0
    while desc.startswith('['):
        d += 1
        desc = desc[1:]
    if desc in PRIM:
        return {PRIM[desc] + '[]' * d}
    body = desc[1:-1]
    out = {body.replace('/', '.') + '[]' * d}
    if body.startswith('java/lang/') and '/' not in body[10:] and len(body) > 10:
        out.add(body[10:] + '[]' * d)
    return out


def job(jc, spec):
    which, n, dims = spec
    hook.install()
    if which == 'decompiler':
        from androguard.decompiler import util as mod
    else:
        mod = common.dexmod()
    if not isinstance(mod.TYPE_DESCRIPTOR, SymDict):
        mod.TYPE_DESCRIPTOR = SymDict(mod.TYPE_DESCRIPTOR)
    mod.logger = NullLogger()
    body = [fresh_char('b%d' % i, 16) for i in range(n)]
    pre = []
    for i, c in enumerate(body):
        pre.append(z3.And(c.e != ord('.'), c.e != ord(';'), c.e != ord('['), c.e >= 0x21, c.e != 0x7f))
        if i == 0 or i == n - 1:
            pre.append(c.e != ord('/'))
        if i > 0:
            pre.append(z3.Not(z3.And(c.e == ord('/'), body[i - 1].e == ord('/'))))
    desc = SStr([ord('[')] * dims + [ord('L')] + body + [ord(';')])
    dotted = SStr([_dot(c) for c in body] + [ord('['), ord(']')] * dims)
    JL = 'java/lang/'
    direct = z3.BoolVal(False)
    simple = None
    if n > len(JL):
        direct = z3.And([body[i].e == ord(ch) for i, ch in enumerate(JL)] +
                        [body[i].e != ord('/') for i in range(len(JL), n)])
        simple = SStr(body[len(JL):] + [ord('['), ord(']')] * dims)
    eng = jc.new_engine(pre=pre)
    label = '%s len%d dims%d' % (which, n, dims)

    def ext(m):
        return dict(fn=which, descriptor=desc.concrete(m))
    regions = {'c24_lstrip_charset': z3.And([body[i].e == ord(ch) for i, ch in enumerate('java/lang') if i < n] +
                                            [z3.BoolVal(n >= 9)])}
    for pc, (kind, r) in eng.explore(lambda: mod.get_type(desc), keep_pcs=True):
        jc.reached('%s:class' % which)
        if kind == 'exc':
            jc.obligation(eng, pc, z3.BoolVal(False), ext, regions, label=label, what='raised %r' % (r,))
            continue
        if isinstance(r, str):
            r = SStr.of(r)
        if not isinstance(r, SStr):
            jc.obligation(eng, pc, z3.BoolVal(False), ext, regions, label=label, what='returned %r' % (r,))
            continue
        ok = r.eq_term(dotted)
        if simple is not None:
            ok = z3.Or(ok, z3.And(direct, r.eq_term(simple)))
        jc.obligation(eng, pc, ok, ext, regions, label=label,
                      what='rendered name is neither the dotted name nor the java.lang simple name')
    eng.partition_guard()
    if n in (1, 11):
        jc.sample(dict(function=which, body_chars=n, dims=dims, paths=eng.st.paths))


def _dot(c):
    e = z3.simplify(z3.If(c.e == ord('/'), z3.BitVecVal(ord('.'), W), c.e))
    return e.as_long() if z3.is_bv_value(e) else SInt(e, 0, 0xFFFF)


def run(ctx):
    ctx.functions_encoded = FUNCS
    maxn = 16 if ctx.thorough else 13
    ctx.bounds = dict(class_body='1..%d symbolic characters (any BMP character except . ; [ controls; / only as a '
                                 'separator of non-empty segments)' % maxn, array_dims='0..2', primitives='all 9, dims 0..2')
    ctx.stubs = ['SStr', 'SymDict for TYPE_DESCRIPTOR (a symbolic string cannot be hashed)', 'NullLogger']
    ctx.assumptions = ['accepted renderings: the fully qualified dotted name, or the simple name iff the class is a direct '
                       'member of java.lang; one [] per dimension (DESIGN 5a: keeping java.lang. is not penalised)']
    ctx.outside_claim = ['class names longer than %d characters' % maxn, 'the size argument of get_type']
    hook.install()
    cases = ['I', '[J', '[[Z', 'Ljava/lang/String;', 'Ljava/lang/annotation/Foo;', 'Ljava/language/X;', 'Ljavax/a/B;',
             '[Ljava/lang/Object;', 'La;', 'Ljava/langv;', 'Ljava/lang/Thread$State;', 'V']
    ctx.diff_unhooked(sys.modules[__name__], [[w, c] for w in ('decompiler', 'dex') for c in cases])
    # primitives: finite, compared concretely on the hooked module (identical to unhooked by the line above)
    for w in ('decompiler', 'dex'):
        for p in PRIM:
            for d in range(3):
                desc = '[' * d + p
                got = concrete([w, desc])
                if got not in ref_names(desc):
                    ctx.concrete_violation(dict(fn=w, descriptor=desc), label='primitive', what='%r -> %r' % (desc, got))
                ctx.validated += 1
    jobs = [(w, n, d) for w in ('decompiler', 'dex') for n in range(1, maxn + 1) for d in ((0, 1, 2) if n in (1, 11, 12) else (0,))]
    ctx.expect_reach(['decompiler:class', 'dex:class'])
    ctx.pmap(job, jobs)


def concrete(c):
    w, desc = c
    if w == 'decompiler':
        from androguard.decompiler import util as mod
    else:
        from androguard.core import dex as mod
    return mod.get_type(desc)


def replay(w):
    desc = w['descriptor']
    try:
        got = concrete([w['fn'], desc])
    except Exception as e:
        return True, '%s.get_type(%r) raised %r' % (w['fn'], desc, e)
    return got not in ref_names(desc), '%s.get_type(%r) = %r, accepted %r' % (w['fn'], desc, got, sorted(ref_names(desc)))
