"""C30 locale qualifiers: ARSCResTableConfig locale word <-> language-region string, vs AOSP (un)packLanguageOrRegion."""
import sys
import z3
from ..engine import *
from ..sstr import SStr, fresh_char, sx_ord, sx_chr
from .. import common

FUNCS = ['androguard.core.axml.ARSCResTableConfig.__init__ (locale=...)', 'set_language_and_region',
         '_pack_language_or_region', 'get_language_and_region', '_unpack_language_or_region']


# ------------------------------------------------------------------ AOSP reference (concrete)
def aosp_unpack(b0, b1, base):
    if b0 & 0x80:
        first = b1 & 0x1f
        second = ((b1 & 0xe0) >> 5) + ((b0 & 0x03) << 3)
        third = (b0 & 0x7c) >> 2
        return chr(first + base) + chr(second + base) + chr(third + base)
    if b0:
        return chr(b0) + (chr(b1) if b1 else '')
    return ''


def aosp_pack(s, base):
    if len(s) == 2:
        return ord(s[0]), ord(s[1])
    if len(s) == 3:
        f, se, t = [(ord(c) - base) & 0x7f for c in s]
        return (0x80 | (t << 2) | (se >> 3)) & 0xff, ((se << 5) | f) & 0xff
    return 0, 0


def aosp_string(word):
    lang = aosp_unpack(word & 0xff, (word >> 8) & 0xff, ord('a'))
    reg = aosp_unpack((word >> 16) & 0xff, (word >> 24) & 0xff, ord('0'))
    if word == 0:
        return '\x00\x00'
    return lang + '-r' + reg if reg else lang


def aosp_word(s):
    if s == '\x00\x00':
        return 0
    lang, _, reg = s.partition('-r')
    l0, l1 = aosp_pack(lang, ord('a'))
    r0, r1 = aosp_pack(reg, ord('0')) if reg else (0, 0)
    return l0 | l1 << 8 | r0 << 16 | r1 << 24


# ------------------------------------------------------------------ symbolic grammar
def sym_part(tag, n, base, lo, hi):
    """n symbolic characters in [lo,hi]; returns (chars as SInt, constraints, packed (b0,b1) terms per AOSP)"""
    cs = [fresh_char('%s%d' % (tag, i), 8) for i in range(n)]
    pre = [z3.And(c.e >= lo, c.e <= hi) for c in cs]
    if n == 2:
        return cs, pre, (cs[0].e, cs[1].e)
    f, s, t = [(c.e - base) & 0x7f for c in cs]
    b0 = (0x80 | (t << 2) | z3.LShR(s, 3)) & 0xff
    b1 = ((s << 5) | f) & 0xff
    return cs, pre, (b0, b1)


# locales converted in the process before the symbolic runs (differential validation); replays repeat them first, so
# that a witness that depends on what the process converted earlier reproduces
HISTORY = ['en', 'de-rDE', 'fil', 'fil-rPH', 'es-r419', 'kok-rIN', 'zh-rTW', '\x00\x00', 'aa', 'zzz-r999']


def run(ctx):
    from .. import hook
    hook.install(symkeys=('androguard.core.axml',))
    axml = common.axmlmod()
    axml.ord = sx_ord
    axml.chr = sx_chr
    ctx.functions_encoded = FUNCS
    ctx.bounds = dict(language='all 26^2 two-letter and all 26^3 packed three-letter codes',
                      region='absent, all two-character [A-Z0-9]^2, all three-digit codes')
    ctx.stubs = ['SStr for symbolic strings (ord/chr/split/len)', 'sx_isinstance',
                 'dictionaries indexed with symbolic keys inside androguard.core.axml are compared with == (side table, reset per path)']
    ctx.assumptions = ['grammar: language = 2 or 3 lower-case ASCII letters; region = 2 upper-case letters/digits or 3 digits',
                       'the default locale word 0 is checked concretely']
    ctx.outside_claim = ['scripts and variants (localeScript / localeVariant)', 'three-character regions with letters']
    ctx.diff_unhooked(sys.modules[__name__], HISTORY)
    regions = {'c30_three_letter': None}
    for ln in (2, 3):
        for rk in ('none', 'AA', '999'):
            label = 'lang%d region:%s' % (ln, rk)
            lc, pre, (l0, l1) = sym_part('l', ln, ord('a'), ord('a'), ord('z'))
            if rk == 'none':
                rc, (r0, r1) = [], (z3.BitVecVal(0, W), z3.BitVecVal(0, W))
            elif rk == 'AA':
                rc, p2, (r0, r1) = sym_part('r', 2, ord('0'), ord('0'), ord('Z'))
                pre += [z3.Or(z3.And(c.e >= ord('0'), c.e <= ord('9')), z3.And(c.e >= ord('A'), c.e <= ord('Z'))) for c in rc]
            else:
                rc, p2, (r0, r1) = sym_part('r', 3, ord('0'), ord('0'), ord('9'))
                pre += p2
            word = l0 | (l1 << 8) | (r0 << 16) | (r1 << 24)
            text = SStr(list(lc) + ([ord('-'), ord('r')] + list(rc) if rc else []))
            three = z3.BoolVal(ln == 3 or rk == '999')
            eng = ctx.new_engine(pre=pre)

            def go():
                # string -> configuration -> string
                cfg = axml.ARSCResTableConfig(None, locale=text)
                back = cfg.get_language_and_region()
                # word -> string -> configuration
                cfg2 = axml.ARSCResTableConfig.__new__(axml.ARSCResTableConfig)
                cfg2.locale = SInt(word, 0, (1 << 32) - 1)
                s2 = cfg2.get_language_and_region()
                cfg3 = axml.ARSCResTableConfig(None, locale=s2)
                return cfg.locale, back, s2, cfg3.locale

            def ext(m):
                return dict(text=text.concrete(m))
            for pc, (kind, r) in eng.explore(go, keep_pcs=True):
                ctx.reached(label)
                reg = {'c30_three_letter': three}
                if kind == 'exc':
                    ctx.obligation(eng, pc, z3.BoolVal(False), ext, reg, label=label, what='raised %r' % (r,))
                    continue
                w1, back, s2, w3 = r

                def streq(a, b):
                    if isinstance(a, str):
                        a = SStr.of(a)
                    return a.eq_term(b) if isinstance(a, SStr) else z3.BoolVal(False)
                obs = {'encoded locale word': bv(w1) == word,
                       'string read back from the encoded configuration': streq(back, text),
                       'string decoded from the AOSP word': streq(s2, text),
                       're-encoding the decoded string': bv(w3) == word}
                ctx.obligations(eng, pc, obs, ext, reg, label=label, what='%s differs from AOSP')
                ctx.sample(dict(form=label, symbolic_chars=len(lc) + len(rc)))
            eng.partition_guard()


def concrete(c):
    from androguard.core import axml
    cfg = axml.ARSCResTableConfig(None, locale=c)
    return [cfg.locale, cfg.get_language_and_region()]


def replay(w):
    from androguard.core import axml
    s = w['text']
    word = aosp_word(s)
    try:
        for h in HISTORY:
            concrete(h)
        cfg = axml.ARSCResTableConfig(None, locale=s)
        back = cfg.get_language_and_region()
        c2 = axml.ARSCResTableConfig.__new__(axml.ARSCResTableConfig)
        c2.locale = word
        s2 = c2.get_language_and_region()
        w3 = axml.ARSCResTableConfig(None, locale=s2).locale
        got = [cfg.locale, back, s2, w3]
    except Exception as e:
        return True, '%r raised %r' % (s, e)
    exp = [word, s, s, word]
    return got != exp, 'locale %r (after converting %r in the same process): [word, read back, decoded, re-encoded] = %r, AOSP %r' % (s, HISTORY, got, exp)
