"""C10: see vf/cfg.py (shared skeleton/CFG harness; this module selects the obligations of C10)."""
from .. import cfg


def run(ctx):
    cfg.run(ctx, 'C10')


concrete = cfg.concrete
replay = cfg.replay
