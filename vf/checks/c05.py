"""C05 parsed object model: a skeleton DEX (dexasm) with symbolic bytes overlaid on one field group at a time
(class_def words, type/proto/field/method id fields, class_data uleb bytes, code_item header); the real DEX() parse
is compared with an independent term-aware reference reader of the same bytes, plus the name/descriptor lookups."""
import sys
import struct
import z3
from ..engine import *
from .. import common, hook, dexasm, dexref
from ..dexasm import Cls, Mth, Fld, Code

FUNCS = ['androguard.core.dex.DEX.__init__/_load', 'MapList', 'ClassManager', 'StringIdItem/TypeIdItem/ProtoIdItem/FieldIdItem/'
         'MethodIdItem', 'ClassDefItem', 'ClassDataItem', 'EncodedField', 'EncodedMethod', 'DalvikCode', 'TypeList',
         'DEX.get_classes/get_class/get_encoded_method_descriptor/get_encoded_field_descriptor']


def skeleton_nocode():
    """a file in which no method has code (interface + abstract class with abstract / native methods): no code items at all"""
    I = Cls('LI;', access=0x601, superclass='Ljava/lang/Object;', vmethods=[Mth('run', 'V', (), 0x401, None)])
    A = Cls('LA;', access=0x401, interfaces=('LI;',), source='A.java', sfields=[Fld('a1', 'I', 0x9)], ifields=[Fld('a2', 'J', 0x2)],
            dmethods=[Mth('nat', 'I', ('I', 'J'), 0x109, None)],
            vmethods=[Mth('abs', 'V', (), 0x401, None), Mth('v', 'I', ('I', 'J'), 0x401, None)])
    return dexasm.assemble([I, A])


def skeleton(variant='code'):
    if variant == 'nocode':
        return skeleton_nocode()
    rv = lambda P: [0x000e]
    r0 = lambda P: [0x0012, 0x0011]        # const/4 v0,0 ; return-object v0
    ri = lambda P: [0x0012, 0x000f]
    I = Cls('LI;', access=0x601, superclass='Ljava/lang/Object;')
    A = Cls('LA;', access=0x1, interfaces=('LI;',), source='A.java',
            sfields=[Fld('a1', 'I', 0x9)], ifields=[Fld('a2', 'J', 0x2), Fld('a3', '[LA;', 0x12)],
            dmethods=[Mth('m', 'V', (), 0x9, Code(3, 0, 1, rv)),
                      Mth('<init>', 'V', (), 0x10001, Code(1, 1, 0, rv))],
            vmethods=[Mth('call', 'Ljava/lang/Object;', (), 0x1041, Code(1, 1, 0, r0)),
                      Mth('call', 'Ljava/lang/String;', (), 0x1, Code(1, 1, 0, r0)),
                      Mth('n', 'V', ('I', 'J'), 0x101, None),
                      Mth('v', 'I', ('I', 'J'), 0x1, Code(5, 4, 0, ri))])
    B = Cls('LB;', access=0x11, superclass='LA;', source='B.java', sfields=[Fld('b1', 'Z', 0x8)],
            vmethods=[Mth('v', 'I', ('I', 'J'), 0x1, Code(6, 4, 2, ri)), Mth('w', 'V', (), 0x401, None)])
    return dexasm.assemble([I, A, B])


def groups(blob, P, L, variant='code'):
    """name -> list of (offset, nbytes, constraint builder) fields to make symbolic"""
    nS, nT, nP, nF, nM = len(P.s_list), len(P.t_list), len(P.p_list), len(P.f_list), len(P.m_list)
    if variant == 'nocode':
        cA = L.class_def_off['LA;']
        mv = L.sections['method_ids'] + 8 * P.m_idx[('LA;', 'v', 'I', ('I', 'J'))]
        lt = lambda n: (lambda e: e < n)
        return {'nocode:class_def': [(cA + 0, 4, lt(nT)), (cA + 4, 4, None), (cA + 8, 4, lambda e: z3.Or(e < nT, e == 0xffffffff))],
                'nocode:method_id': [(mv + 0, 2, lt(nT)), (mv + 2, 2, lt(nP)), (mv + 4, 4, lt(nS))]}
    cB = L.class_def_off['LB;']
    tI = L.sections['type_ids'] + 4 * P.t_idx['LI;']
    mv = L.sections['method_ids'] + 8 * P.m_idx[('LA;', 'v', 'I', ('I', 'J'))]
    fa = L.sections['field_ids'] + 8 * P.f_idx[('LA;', 'a2', 'J')]
    pv = L.sections['proto_ids'] + 12 * P.p_idx[('I', ('I', 'J'))]
    code_m = L.code_off[('LA;', 'm')]
    cdA = L.class_data_off['LA;']
    lt = lambda n: (lambda e: e < n)
    G = {
        'class_def': [(cB + 0, 4, lt(nT)), (cB + 4, 4, None), (cB + 8, 4, lambda e: z3.Or(e < nT, e == 0xffffffff)),
                      (cB + 16, 4, lambda e: z3.Or(e < nS, e == 0xffffffff))],
        'type_id': [(tI, 4, lt(nS))],
        'method_id': [(mv + 0, 2, lt(nT)), (mv + 2, 2, lt(nP)), (mv + 4, 4, lt(nS))],
        'field_id': [(fa + 0, 2, lt(nT)), (fa + 2, 2, lt(nT)), (fa + 4, 4, lt(nS))],
        'proto_id': [(pv + 0, 4, lt(nS)), (pv + 4, 4, lt(nT))],
        'code_header': [(code_m + 0, 2, None), (code_m + 2, 2, None), (code_m + 4, 2, None)],
    }
    # class_data of LA;: 4 size bytes, then fields (idx_diff, flags) and methods (idx_diff, flags, code_off)
    o = cdA + 4
    # static field a1: diff byte o, flags o+1 ; instance a2: o+2,o+3 ; a3: o+4,o+5
    G['class_data_fields'] = [(o + 1, 1, lambda e: e < 0x80), (o + 3, 1, lambda e: e < 0x80), (o + 4, 1, lambda e: e + P.f_idx[('LA;', 'a2', 'J')] < nF)]
    return G


def lookups(d, ref_classes):
    """name/descriptor based lookups: every uniquely named item must be returned by its lookup"""
    bad = []
    names = [c['name'] for c in ref_classes]
    for c in ref_classes:
        if names.count(c['name']) == 1:
            got = d.get_class(c['name'])
            if got is None or got.get_name() != c['name']:
                bad.append('get_class(%r) -> %r' % (c['name'], got))
    allm = [m[:3] for c in ref_classes for m in c['dmethods'] + c['vmethods']]
    for c in ref_classes:
        for m in c['dmethods'] + c['vmethods']:
            if allm.count(m[:3]) == 1 and None not in m[:3]:
                got = d.get_encoded_method_descriptor(m[0], m[1], m[2])
                if got is None or (got.get_class_name(), got.get_name(), got.get_descriptor()) != tuple(m[:3]):
                    bad.append('get_encoded_method_descriptor%r -> %r' % (tuple(m[:3]), got and (got.get_class_name(), got.get_name(), got.get_descriptor())))
    allf = [f[:3] for c in ref_classes for f in c['sfields'] + c['ifields']]
    for c in ref_classes:
        for f in c['sfields'] + c['ifields']:
            if allf.count(f[:3]) == 1 and None not in f[:3]:
                got = d.get_encoded_field_descriptor(f[0], f[1], f[2])
                if got is None or (got.get_class_name(), got.get_name(), got.get_descriptor()) != tuple(f[:3]):
                    bad.append('get_encoded_field_descriptor%r -> %r' % (tuple(f[:3]), got))
    return bad


def job(jc, gname):
    dex = common.dexmod()
    variant = 'nocode' if gname.startswith('nocode:') else 'code'
    blob, P, L = skeleton(variant)
    hook.ZL.value = int.from_bytes(blob[8:12], 'little')
    items = list(blob)
    pre = []
    sym = []
    for off, n, cons in groups(blob, P, L, variant)[gname]:
        bs = [fresh_byte('g%d_%d' % (off, k)) for k in range(n)]
        items[off:off + n] = bs
        e = z3.BitVecVal(0, W)
        for k, b in enumerate(bs):
            e = e | (b.e << (8 * k))
        if cons is not None:
            pre.append(cons(e))
        sym += bs
    eng = jc.new_engine(pre=pre)
    label = 'group ' + gname

    def go():
        d = dex.DEX(SBytes(items))
        return d, dexref.observe(d)

    def ext(m):
        return dict(group=gname, blob=bytes(mval(m, x) & 0xff for x in items).hex())
    for pc, (kind, r) in eng.explore(go, keep_pcs=True):
        jc.reached(gname)
        if kind == 'exc':
            jc.obligation(eng, pc, z3.BoolVal(False), ext, label=label, what='parse raised %r' % (r,))
            continue
        d, obs = r
        m = eng.solve(pc)
        R = dexref.Ref(items, m).parse()
        try:
            ref = R.classes()
        except Exception as e:
            raise Inconclusive('reference reader failed: %r' % e)
        cond, diff = dexref.compare(obs, ref)
        lk = lookups(d, ref)
        jc.obligations(eng, pc, {'reference structure determined by the path (harness)': z3.And(R.assume + [z3.BoolVal(True)]),
                                 'object model': cond if diff is None else z3.BoolVal(False),
                                 'name/descriptor lookups': z3.BoolVal(not lk)}, ext, label=label,
                       what='%s: ' + (diff or (lk[0] if lk else 'value differs from the file')))
    eng.partition_guard()
    jc.sample(dict(group=gname, symbolic_bytes=len(sym), paths=eng.st.paths))


def run(ctx):
    common.dexmod()
    blob, P, L = skeleton()
    G = groups(blob, P, L)
    blob2, P2, L2 = skeleton('nocode')
    G.update(groups(blob2, P2, L2, 'nocode'))
    ctx.functions_encoded = FUNCS
    ctx.bounds = dict(second_skeleton='interface + abstract class whose methods are all abstract / native: a file without any code item (groups nocode:*)',
                      skeleton='3 classes (interface, class with covariant method pair / abstract+native methods / array field, subclass), '
                               '%d strings, %d types, %d protos, %d fields, %d methods' % (len(P.s_list), len(P.t_list), len(P.p_list), len(P.f_list), len(P.m_list)),
                      groups={g: '%d symbolic bytes' % sum(n for _, n, _ in G[g]) for g in G},
                      one_group_at_a_time=True)
    ctx.stubs = ['SymStruct / SymIO', 'adler32 stub', 'NullLogger']
    ctx.assumptions = ['index fields stay inside their tables (well-formed file); uleb128 bytes of class_data are single-byte',
                       'reference = independent reader of the same bytes (vf/dexref.py); table-selecting values are proved to be '
                       'pinned by the path condition, pass-through values are compared as terms']
    ctx.outside_claim = ['interaction between field groups', 'files larger than the skeleton', 'annotations, debug info, static values']
    ctx.diff_unhooked(sys.modules[__name__], [blob.hex(), blob2.hex()])
    ctx.expect_reach(list(G))
    ctx.pmap(job, list(G))


def _obs_concrete(dex, blob):
    if hasattr(dex.zlib, 'calls'):
        dex.zlib.value = int.from_bytes(blob[8:12], 'little')
    d = dex.DEX(blob)
    obs = dexref.observe(d)
    for c in obs:
        for k in ('dmethods', 'vmethods'):
            c[k] = [list(m[:4]) + [None if m[4] is None else dict(m[4], insns=bytes(m[4]['insns']).hex())] for m in c[k]]
    return d, obs


def concrete(c):
    from androguard.core import dex
    return _obs_concrete(dex, bytes.fromhex(c))[1]


def replay(w):
    from androguard.core import dex
    blob = dexasm.fix_checksum(bytes.fromhex(w['blob']))
    try:
        d = dex.DEX(blob)
        obs = dexref.observe(d)
    except Exception as e:
        return True, 'parse raised %r' % e

    class M:
        def eval(self, t, model_completion=True): return z3.simplify(t)
    R = dexref.Ref(list(blob), M()).parse()
    ref = R.classes()
    cond, diff = dexref.compare(obs, ref)
    ok = diff is None and z3.is_true(z3.simplify(cond))
    lk = lookups(d, ref)
    return (not ok) or bool(lk), 'group %s: %s' % (w['group'], diff or ('; '.join(lk[:2]) if lk else 'a flag/size value differs'))
