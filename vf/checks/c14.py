"""C14: see vf/xref.py (shared skeleton / cross-reference harness; this module selects the obligations of C14)."""
from .. import xref


def run(ctx):
    xref.run(ctx, 'C14')


concrete = xref.concrete
replay = xref.replay
