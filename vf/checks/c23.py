"""C23 Java string literals: decompiler.writer.string on symbolic strings vs a Java lexical-unescape reference."""
import sys
import z3
from ..engine import *
from .. import engine as E
from ..sstr import SStr, fresh_char, sx_ord, sx_chr, cpt, _norm
from .. import common, hook

FUNCS = ['androguard.decompiler.writer.string']


class LexError(Exception):
    pass


# ------------------------------------------------------------------ concrete Java lexer for one string literal
def java_unescape_concrete(lit):
    """UTF-16 code units denoted by the Java string literal `lit` (a str including the quotes); LexError if malformed"""
    # stage 1: unicode escapes (backslash preceded by an even number of backslashes, one or more 'u', 4 hex digits)
    out = []            # (unit, from_escape)
    i = 0
    run = 0
    n = len(lit)
    while i < n:
        c = lit[i]
        if c == '\\' and run % 2 == 0 and i + 1 < n and lit[i + 1] == 'u':
            j = i + 1
            while j < n and lit[j] == 'u':
                j += 1
            h = lit[j:j + 4]
            if len(h) < 4 or any(ch not in '0123456789abcdefABCDEF' for ch in h):
                raise LexError('bad unicode escape')
            out.append((int(h, 16), True))
            i = j + 4
            run = 0
            continue
        run = run + 1 if c == '\\' else 0
        o = ord(c)
        if o > 0xFFFF:
            o -= 0x10000
            out.append((0xD800 + (o >> 10), False))
            out.append((0xDC00 + (o & 0x3FF), False))
        else:
            out.append((o, False))
        i += 1
    # stage 2: the literal
    if len(out) < 2 or out[0][0] != 0x22:
        raise LexError('no opening quote')
    units = []
    i = 1
    while True:
        if i >= len(out):
            raise LexError('unterminated')
        u = out[i][0]
        if u == 0x22:
            if i != len(out) - 1:
                raise LexError('quote inside literal')
            return units
        if u in (0x0a, 0x0d):
            raise LexError('line terminator inside literal')
        if u == 0x5c:
            if i + 1 >= len(out):
                raise LexError('dangling backslash')
            e = out[i + 1][0]
            simple = {ord('b'): 8, ord('t'): 9, ord('n'): 10, ord('f'): 12, ord('r'): 13, ord('s'): 32,
                      0x22: 0x22, 0x27: 0x27, 0x5c: 0x5c}
            if e in simple:
                units.append(simple[e])
                i += 2
                continue
            if ord('0') <= e <= ord('7'):
                v = e - 48
                k = i + 2
                lim = 3 if e <= ord('3') else 2
                cnt = 1
                while k < len(out) and cnt < lim and ord('0') <= out[k][0] <= ord('7'):
                    v = v * 8 + out[k][0] - 48
                    k += 1
                    cnt += 1
                units.append(v)
                i = k
                continue
            raise LexError('bad escape')
        units.append(u)
        i += 1


def utf16(s):
    out = []
    for ch in s:
        o = ord(ch)
        if o > 0xFFFF:
            o -= 0x10000
            out += [0xD800 + (o >> 10), 0xDC00 + (o & 0x3FF)]
        else:
            out.append(o)
    return out


# ------------------------------------------------------------------ the same lexer over SStr (branches via the engine)
def is_(x, k):
    return bool(SBool(cpt(x) == k))


def in_rng(x, a, b):
    return bool(SBool(z3.And(cpt(x) >= a, cpt(x) <= b)))


def hexval(x):
    """value of a hex digit character; one branch on validity, the value itself is a merged ite term"""
    c = cpt(x)
    dig, lo, up = z3.And(c >= 48, c <= 57), z3.And(c >= 97, c <= 102), z3.And(c >= 65, c <= 70)
    if not bool(SBool(z3.Or(dig, lo, up))):
        raise LexError('bad hex digit')
    return SInt(z3.simplify(z3.If(dig, c - 48, z3.If(lo, c - 87, c - 55))), 0, 15)


def java_unescape_sym(lit):
    cs = lit.c
    n = len(cs)
    out = []
    i = 0
    run = 0
    while i < n:
        c = cs[i]
        bs = is_(c, 0x5c)
        if bs and run % 2 == 0 and i + 1 < n and is_(cs[i + 1], ord('u')):
            j = i + 1
            while j < n and is_(cs[j], ord('u')):
                j += 1
            if j + 4 > n:
                raise LexError('bad unicode escape')
            v = SInt.of(0)
            for k in range(4):
                v = (v << 4) | hexval(cs[j + k])
            out.append(v)
            i = j + 4
            run = 0
            continue
        run = run + 1 if bs else 0
        if isinstance(c, SInt) and not bool(SBool(c.e <= 0xFFFF)):
            o = c - 0x10000
            out.append(0xD800 + (o >> 10))
            out.append(0xDC00 + (o & 0x3FF))
        elif isinstance(c, int) and c > 0xFFFF:
            o = c - 0x10000
            out += [0xD800 + (o >> 10), 0xDC00 + (o & 0x3FF)]
        else:
            out.append(c)
        i += 1
    if len(out) < 2 or not is_(out[0], 0x22):
        raise LexError('no opening quote')
    units = []
    i = 1
    while True:
        if i >= len(out):
            raise LexError('unterminated')
        u = out[i]
        if is_(u, 0x22):
            if i != len(out) - 1:
                raise LexError('quote inside literal')
            return units
        if is_(u, 0x0a) or is_(u, 0x0d):
            raise LexError('line terminator inside literal')
        if is_(u, 0x5c):
            if i + 1 >= len(out):
                raise LexError('dangling backslash')
            e = out[i + 1]
            for ch, v in ((ord('b'), 8), (ord('t'), 9), (ord('n'), 10), (ord('f'), 12), (ord('r'), 13), (ord('s'), 32),
                          (0x22, 0x22), (0x27, 0x27), (0x5c, 0x5c)):
                if is_(e, ch):
                    units.append(v)
                    i += 2
                    break
            else:
                if in_rng(e, 48, 55):
                    v = SInt.of(e) - 48
                    lim = 3 if in_rng(e, 48, 51) else 2
                    k = i + 2
                    cnt = 1
                    while k < len(out) and cnt < lim and in_rng(out[k], 48, 55):
                        v = v * 8 + (SInt.of(out[k]) - 48)
                        k += 1
                        cnt += 1
                    units.append(v)
                    i = k
                else:
                    raise LexError('bad escape')
            continue
        units.append(u)
        i += 1


def job(jc, spec):
    n, first_class = spec
    hook.install(symkeys=('androguard.decompiler.writer', 'androguard.decompiler.opcode_ins'))
    from androguard.decompiler import writer
    writer.ord = sx_ord
    hook.MOD_TO_SSTR[0] = True
    chars = [fresh_char('c%d' % i) for i in range(n)]
    pre = [c.e <= 0x10FFFF for c in chars]
    if first_class is not None:
        lo, hi = first_class
        pre.append(z3.And(chars[0].e >= lo, chars[0].e <= hi))
    s = SStr(chars)
    eng = jc.new_engine(pre=pre)
    label = 'len%d' % n

    def want_units():
        out = []
        for c in chars:
            if bool(SBool(c.e <= 0xFFFF)):
                out.append(c)
            else:
                o = c - 0x10000
                out.append(0xD800 + (o >> 10))
                out.append(0xDC00 + (o & 0x3FF))
        return out

    def go():
        lit = writer.string(s)
        if isinstance(lit, str):
            lit = SStr.of(lit)
        try:
            units = java_unescape_sym(lit)
        except LexError as e:
            return ('lexerror', str(e), lit)
        return ('ok', units, want_units(), lit)

    def ext(m):
        return dict(codepoints=[mval(m, c) for c in chars])
    regions = {'c23_supplementary': z3.Or([c.e > 0xFFFF for c in chars] + [z3.BoolVal(False)])}
    for pc, (kind, r) in eng.explore(go, keep_pcs=True):
        jc.reached(label)
        if kind == 'exc':
            jc.obligation(eng, pc, z3.BoolVal(False), ext, regions, label=label, what='string() raised %r' % (r,))
            continue
        if r[0] == 'lexerror':
            jc.obligation(eng, pc, z3.BoolVal(False), ext, regions, label=label,
                          what='literal is not a well-formed Java string literal (%s)' % r[1])
            continue
        _, units, want, lit = r
        if len(units) != len(want):
            ob = z3.BoolVal(False)
        else:
            ob = z3.And([bv(a) == bv(b) for a, b in zip(units, want)] + [z3.BoolVal(True)])
        jc.obligation(eng, pc, ob, ext, regions, label=label,
                      what='literal denotes different UTF-16 code units than the original string')
        # output must be printable ASCII only (so that source encoding cannot change its meaning)
        jc.obligation(eng, pc, z3.And([z3.And(cpt(x) >= 0x20, cpt(x) < 0x7f) for x in lit.c] + [z3.BoolVal(True)]), ext,
                      regions, label=label + ':ascii', what='literal contains a raw non-ASCII / control character')
    eng.partition_guard()
    if n <= 1:
        jc.sample(dict(length=n, paths=eng.st.paths, first_char_class=first_class))


CLASSES = [(0, 0x1f), (0x20, 0x7e), (0x7f, 0x7ff), (0x800, 0xd7ff), (0xd800, 0xdfff), (0xe000, 0xffff),
           (0x10000, 0x10ffff)]


def run(ctx):
    ctx.functions_encoded = FUNCS
    maxlen = 3 if ctx.thorough else 2
    ctx.bounds = dict(length='0..%d code points, each any value in 0..0x10FFFF (lone surrogates included)' % maxlen,
                      note='the loop keeps no state across characters; length 1 is the lemma, 2..3 confirm independence')
    ctx.stubs = ['SStr (symbolic characters)', "'%x' % n expanded into symbolic hex-digit characters", 'sx_ord']
    ctx.assumptions = ['Java lexical rules: unicode-escape translation (even-backslash rule) before string escapes; '
                       "CR/LF and an unescaped '\"' may not occur inside the literal",
                       'the literal must consist of printable ASCII only']
    ctx.outside_claim = ['strings longer than %d code points' % maxlen]
    hook.install(symkeys=('androguard.decompiler.writer', 'androguard.decompiler.opcode_ins'))
    cases = ['', 'a', '"', "'", '\\', '\n', '\r', '\t', '\x00', '\x7f', '\x80', ' ', '\ud800', '\udfff', '￿',
             'a\\u0041', '\\"', 'ab"c', '\\\\u0022']
    ctx.diff_unhooked(sys.modules[__name__], cases)
    # the literal in decompiled source: a sequence of one-method DEX files in one process, every string at the same
    # string_ids index as its predecessor (enumeration of concrete strings through the real pipeline, no solver query)
    for k, what in source_problems(LOW + HIGH)[:3]:
        ctx.concrete_violation(dict(source='sequence', upto=k), label='get_source', what=what)
    ctx.validated += len(LOW + HIGH)
    ctx.functions_encoded = FUNCS + ['androguard.decompiler.opcode_ins.conststring', 'DvMethod.get_source (literal of a const-string)']
    ctx.bounds['source_literals'] = '%d + %d fixed strings, each in its own DEX file, decompiled one after the other' % (len(LOW), len(HIGH))
    jobs = [(0, None), (1, None)]
    jobs += [(2, c) for c in CLASSES]
    if ctx.thorough:
        jobs += [(3, c) for c in CLASSES]
    ctx.pmap(job, jobs)
    ctx.expect_reach(['len0', 'len1', 'len2'])


# ------------------------------------------------------------------ the literal as DvMethod.get_source prints it
LOW = ['', ' ', '"', "'", '#"#', '\x00', '\x001', '\x0012', '\x007x', '\t\r\n', '0\\u0041', '5\\', '!\\"', '\x08\x0c', '"""', "''"]
HIGH = ['zz', '\x7f', 'z"', 'z\\', 'z\x00', 'z\x007', 'z\n', '\x80', '\xff\x00', '\u07ff', '\u0800', '\u2028', '\ud7ff', '\ue000', '\uffff',
        '\U00010000', '\U0010ffff', 'é"\\', 'z\\u0022', '\ud800', '\udfff z']


def literal_dex(text):
    """one class with  static String f() { return <text>; }  (const-string v0 ; return-object v0)"""
    from .. import dexasm
    from ..dexasm import Cls, Mth, Code
    m = Mth('f', 'Ljava/lang/String;', (), 0x9, Code(1, 0, 0, lambda P: [0x001a, P.string(text), 0x0011]))
    blob, P, L = dexasm.assemble([Cls('LT;', dmethods=[m])])
    return blob, P.s_idx[text]


def source_literals(blob):
    """string literals in the decompiled source of LT;->f, via the real DEX / Analysis / DvMethod"""
    from androguard.core import dex as dexmod
    from androguard.core.analysis import analysis
    from androguard.decompiler import decompile
    d = dexmod.DEX(blob)
    dx = analysis.Analysis(d)
    m = [x for x in d.get_encoded_methods() if x.get_name() == 'f'][0]
    dv = decompile.DvMethod(dx.get_method(m))
    dv.process()
    src = dv.get_source()
    line = [l for l in src.splitlines() if 'return' in l]
    if len(line) != 1:
        return None, src
    body = line[0].strip()
    if not (body.startswith('return ') and body.endswith(';')):
        return None, src
    return body[len('return '):-1], src


def source_problems(texts):
    """decompile the methods one after the other in this process; each literal must denote its own string"""
    bad = []
    for k, t in enumerate(texts):
        blob, idx = literal_dex(t)
        try:
            lit, src = source_literals(blob)
        except Exception as e:
            bad.append((k, 'decompiling the method raised %r' % (e,)))
            continue
        if lit is None:
            bad.append((k, 'no single return statement in %r' % src))
            continue
        try:
            units = java_unescape_concrete(lit)
        except LexError as e:
            bad.append((k, 'source literal %s is not a well-formed Java literal (%s)' % (lit, e)))
            continue
        if units != utf16(t) or any(not (0x20 <= ord(ch) < 0x7f) for ch in lit):
            bad.append((k, 'string %r (string_ids index %d) is printed as %s, which denotes %s' % (t, idx, lit, [hex(u) for u in units])))
    return bad


def concrete(c):
    from androguard.decompiler import writer
    return writer.string(c)


def replay(w):
    if w.get('source'):
        texts = (LOW + HIGH)[:w['upto'] + 1]
        bad = [b for b in source_problems(texts) if b[0] == w['upto']]
        return bool(bad), 'after decompiling %d other one-method DEX files: %s' % (w['upto'], bad[0][1] if bad else 'literal is right')
    from androguard.decompiler import writer
    s = ''.join(chr(c) for c in w['codepoints'])
    try:
        lit = writer.string(s)
    except Exception as e:
        return True, 'string(%r) raised %r' % (s, e)
    try:
        units = java_unescape_concrete(lit)
    except LexError as e:
        return True, 'string(%r) = %s is not a well-formed Java literal: %s' % (s, lit, e)
    bad = units != utf16(s) or any(not (0x20 <= ord(ch) < 0x7f) for ch in lit)
    return bad, 'string(%s) = %s denotes units %s, original units %s' % (
        ['U+%04X' % c for c in w['codepoints']], lit, [hex(u) for u in units], [hex(u) for u in utf16(s)])
