"""C29 reference cycles: ResourceResolver on a table of K real ARSCResTableEntry objects (plain and complex) whose value
types and reference targets are symbolic; unwinding assertion on the resolution depth; result vs reachable literals."""
import struct
import sys
import z3
from ..engine import *
from ..sfmt import parse_markers
from .. import common, hook

FUNCS = ['androguard.core.axml.ARSCParser.get_resolved_res_configs', 'ResourceResolver.resolve/_resolve_into_result/'
         'put_ate_value/put_item_value', 'ARSCParser.get_res_configs', 'ARSCResTableEntry.__init__', 'ARSCComplex.__init__',
         'ARSCResStringPoolRef', 'format_value']
TYPE_REFERENCE, TYPE_INT_DEC = 0x01, 0x10
BASE = 0x7f010000


class SP:
    def getString(self, i):
        return 'str'


class PC:
    stringpool_main = SP()
    mKeyStrings = SP()


def table_bytes(K, complex_at, DT, DA, ncfg=1, compact=False):
    """raw entry bytes per (resource, configuration): plain Res_value entries; entry `complex_at` is a ResTable_map_entry
    with two items.  With ncfg=2 every resource exists in the default and in a `de` configuration."""
    out = []
    slot = 0
    for i in range(K * ncfg):
        if i == complex_at and ncfg == 1:
            raw = list(struct.pack('<HHI', 16, 1, i)) + list(struct.pack('<II', 0, 2))
            for _ in range(2):
                raw += list(struct.pack('<I', 0x01000000 + slot)) + list(struct.pack('<HB', 8, 0)) + [DT[slot]] + le_bytes(DA[slot], 4)
                slot += 1
        elif compact:
            # compact entry: key index (16 bit), flags = FLAG_COMPACT | data type << 8, data word
            raw = list(struct.pack('<H', i)) + [0x08, DT[slot]] + le_bytes(DA[slot], 4)
            slot += 1
        else:
            raw = list(struct.pack('<HHI', 8, 0, i)) + list(struct.pack('<HB', 8, 0)) + [DT[slot]] + le_bytes(DA[slot], 4)
            slot += 1
        out.append(raw)
    return out


def flatten(res):
    """values in resolution order: results are (config, value) tuples, complex entries nest a list of values / tuples"""
    out = []
    for x in res:
        if isinstance(x, tuple) and len(x) == 2:
            x = x[1]
        if isinstance(x, list):
            out += flatten(x)
        else:
            out.append(x)
    return out


def nslots(K, complex_at, ncfg=1):
    return K * ncfg + (1 if complex_at is not None and complex_at < K and ncfg == 1 else 0)


def ref_reachable(K, complex_at, dt, da, ncfg=1):
    """concrete reference: literals reachable from entry 0; returns (list of (slot index) literal slots, terminates=True)"""
    slots_of = {}
    s = 0
    for i in range(K):
        if ncfg == 2:
            slots_of[i] = [2 * i, 2 * i + 1]
        elif i == complex_at:
            slots_of[i] = [s, s + 1]
            s += 2
        else:
            slots_of[i] = [s]
            s += 1
    seen = set()
    lits = []
    order = []

    def visit(i, stack):
        for sl in slots_of[i]:
            if dt[sl] == TYPE_REFERENCE:
                tgt = da[sl]
                if tgt == 0:
                    continue
                j = tgt - BASE
                if 0 <= j < K and tgt == BASE + j:
                    if j in stack:
                        continue            # cycle: not followed again
                    visit(j, stack + [j])
            else:
                lits.append(sl)
    visit(0, [0])
    return lits


def job(jc, spec):
    K, complex_at = spec[0], spec[1]
    ncfg = spec[2] if len(spec) > 2 else 1
    compact = len(spec) > 3 and spec[3] == 'compact'
    axml = common.axmlmod()
    n = nslots(K, complex_at, ncfg)
    DT = [fresh_byte('dt%d' % i) for i in range(n)]
    DA = [fresh_uint('da%d' % i, 32) for i in range(n)]
    ids = [BASE + i for i in range(K)]
    pre = []
    for i in range(n):
        pre.append(z3.Or(DT[i].e == TYPE_REFERENCE, DT[i].e == TYPE_INT_DEC))
        # a reference points at one of the table's entries, at a missing id, or is the null reference
        pre.append(z3.Implies(DT[i].e == TYPE_REFERENCE, z3.Or([DA[i].e == r for r in ids] + [DA[i].e == BASE + 0x77, DA[i].e == 0])))
    eng = jc.new_engine(pre=pre)
    label = 'K=%d complex_at=%s configurations=%d%s' % (K, complex_at, ncfg, ' compact entries' if compact else '')
    raws = table_bytes(K, complex_at, DT, DA, ncfg, compact)

    def go():
        p = axml.ARSCParser.__new__(axml.ARSCParser)
        p.analyzed = True
        cfg = axml.ARSCResTableConfig.default_config()
        cfgs = [cfg] if ncfg == 1 else [cfg, CFG_DE[0]]
        p.resource_values = {}
        for i, rid in enumerate(ids):
            p.resource_values[rid] = {}
            for c, cf in enumerate(cfgs):
                raw = raws[i * ncfg + c]
                p.resource_values[rid][cf] = axml.ARSCResTableEntry(axml.io.BytesIO(SBytes(raw)), 0, len(raw), rid, PC())
        depth = [0]
        calls = [0]
        RR = axml.ARSCParser.ResourceResolver
        orig = RR._resolve_into_result

        def wrapped(self, result, res_id, config):
            depth[0] += 1
            calls[0] += 1
            # generous unwinding bound: with a correct cycle guard the depth never exceeds K+1 and the number of
            # resolution steps never exceeds the number of reference slots + 1
            if depth[0] > 3 * K + 3 or calls[0] > 4 * (n + 1) * (K + 1):
                raise UnwindExceeded("resolution depth %d / %d steps" % (depth[0], calls[0]))
            try:
                return orig(self, result, res_id, config)
            finally:
                depth[0] -= 1
        RR._resolve_into_result = wrapped
        try:
            res = p.get_resolved_res_configs(ids[0])
        finally:
            RR._resolve_into_result = orig
        return flatten(res)

    def ext(m):
        return dict(K=K, complex_at=complex_at, ncfg=ncfg, compact=compact, dt=[mval(m, x) for x in DT], da=[mval(m, x) & 0xFFFFFFFF for x in DA])
    for pc, (kind, r) in eng.explore(go, keep_pcs=True):
        jc.reached('explored')
        if kind == 'exc':
            what = 'resolution does not terminate (%s)' % r if isinstance(r, (UnwindExceeded, RecursionError)) else 'raised %r' % (r,)
            jc.obligation(eng, pc, z3.BoolVal(False), ext, label=label, what=what)
            continue
        # structure of the visited part is pinned on the path: take it from a model, then prove the literal values
        m = eng.solve(pc)
        dt = [mval(m, x) for x in DT]
        da = [mval(m, x) & 0xFFFFFFFF for x in DA]
        lits = ref_reachable(K, complex_at, dt, da, ncfg)
        terms = []
        ok = True
        for v in r:
            parts = parse_markers(v) if isinstance(v, str) else []
            if len(parts) == 1 and parts[0][0] == 'sym':
                terms.append(parts[0][1])
            else:
                ok = False
        want = [z3.SignExt(W - 32, z3.Extract(31, 0, DA[s].e)) for s in lits]
        # (value types of visited slots are pinned by the is_reference() branches; a back edge may point at any entry
        # on the resolution stack, which does not change the expected literals)
        ob = z3.And([z3.BoolVal(ok and len(terms) == len(want))] + [a == b for a, b in zip(terms, want)])
        jc.obligation(eng, pc, ob, ext, label=label, what='resolved values are not the literals reachable through the references')
    eng.partition_guard()
    jc.sample(dict(case=label, paths=eng.st.paths))


def _visited_slots(K, complex_at, dt, da):
    slots_of = {}
    s = 0
    for i in range(K):
        if i == complex_at:
            slots_of[i] = [s, s + 1]
            s += 2
        else:
            slots_of[i] = [s]
            s += 1
    out = []

    def visit(i, stack):
        for sl in slots_of[i]:
            out.append(sl)
            if dt[sl] == TYPE_REFERENCE and da[sl] != 0:
                j = da[sl] - BASE
                if 0 <= j < K and j not in stack:
                    visit(j, stack + [j])
    visit(0, [0])
    return out


CFG_DE = [None]


def run(ctx):
    axml = common.axmlmod()
    axml.ord = __import__('vf.sstr', fromlist=['sx_ord']).sx_ord
    CFG_DE[0] = axml.ARSCResTableConfig(None, locale='de')
    ctx.functions_encoded = FUNCS
    specs = [(1, None), (2, None), (3, None), (3, 1), (4, 0), (2, None, 2), (2, None, 1, 'compact'), (3, None, 1, 'compact')] + \
            ([(4, None), (5, None), (5, 2), (3, None, 2), (4, None, 1, 'compact')] if ctx.thorough else [])
    ctx.bounds = dict(tables=[dict(entries=s_[0], complex_entry_at=s_[1], configurations=(s_[2] if len(s_) > 2 else 1), compact=len(s_) > 3) for s_ in specs],
                      per_value='type in {reference, int_dec}, reference target any table entry / a missing id / null, literal any 32-bit word',
                      unwinding='resolution depth <= 3K+3 and <= 4(n+1)(K+1) resolution steps')
    ctx.stubs = ['SymIO / SymStruct', 'table built from real ARSCResTableEntry objects placed in resource_values (no file parse)',
                 'string pools stubbed', 'format markers']
    ctx.assumptions = ['one configuration per resource, or two (default and de) in the configurations=2 tables, resolved with config=None', 'a reference met again while it is being resolved is not followed again']
    ctx.outside_claim = ['cycles longer than 5, several configurations, compact entries']
    cases = [[2, None, [1, 1], [BASE + 1, BASE]], [3, 1, [1, 16, 1, 16], [BASE + 1, 7, BASE + 2, 9]], [1, None, [16], [5]],
             [2, None, [1, 16], [BASE + 1, 0xffffffff]], [3, None, [1, 1, 1], [BASE + 1, BASE + 2, BASE + 0x77]]]
    ctx.diff_unhooked(sys.modules[__name__], cases)
    ctx.pmap(job, specs)


def _resolve_concrete(K, complex_at, dt, da, ncfg=1, compact=False):
    import io
    from androguard.core import axml
    raws = table_bytes(K, complex_at, dt, [SInt.of(x) for x in da], ncfg, compact)
    p = axml.ARSCParser.__new__(axml.ARSCParser)
    p.analyzed = True
    cfg = axml.ARSCResTableConfig.default_config()
    cfgs = [cfg] if ncfg == 1 else [cfg, axml.ARSCResTableConfig(None, locale='de')]
    p.resource_values = {}
    for i in range(K):
        p.resource_values[BASE + i] = {}
        for c, cf in enumerate(cfgs):
            raw = bytes(x if isinstance(x, int) else x.concretize() for x in raws[i * ncfg + c])
            f = axml.io.BufferedReader(axml.io.BytesIO(raw)) if hasattr(axml.io, 'BufferedReader') else axml.io.BytesIO(raw)
            p.resource_values[BASE + i][cf] = axml.ARSCResTableEntry(f, 0, len(raw), BASE + i, PC())
    return flatten(p.get_resolved_res_configs(BASE))


def concrete(c):
    sys.setrecursionlimit(400)
    try:
        return _resolve_concrete(*c)
    except RecursionError:
        return 'RecursionError'


def replay(w):
    sys.setrecursionlimit(600)
    try:
        got = _resolve_concrete(w['K'], w['complex_at'], w['dt'], w['da'], w.get('ncfg', 1), w.get('compact', False))
    except RecursionError:
        return True, 'resolving 0x%08x recurses without end (types %r, data %r)' % (BASE, w['dt'], [hex(x) for x in w['da']])
    except Exception as e:
        return True, 'resolution raised %r' % e
    lits = ref_reachable(w['K'], w['complex_at'], w['dt'], w['da'], w.get('ncfg', 1))
    exp = ['%d' % (w['da'][s] - (1 << 32) if w['da'][s] >> 31 else w['da'][s]) for s in lits]
    return got != exp, 'resolved %r, reachable literals %r (types %r, data %r)' % (got, exp, w['dt'], [hex(x) for x in w['da']])
