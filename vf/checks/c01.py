"""C01 instruction decoding: every opcode, every operand bit pattern, vs a format table written from the Dalvik spec."""
import sys
import z3
from ..engine import *
from .. import engine as E
from .. import common

FUNCS = ['androguard.core.dex.get_instruction', 'DALVIK_OPCODES_FORMAT', 'Instruction10x..Instruction4rcc.__init__',
         'get_length', 'get_raw', 'get_operands', 'get_literals', 'get_ref_off', 'get_ref_kind', 'get_name',
         'get_kind']

# ------------------------------------------------------------------ spec tables (independent of the repo)
FMT = {}


def _setf(rng, f):
    for o in rng:
        FMT[o] = f


_setf([0x00, 0x0e], '10x')
_setf([0x01, 0x04, 0x07, 0x21] + list(range(0x7b, 0x90)) + list(range(0xb0, 0xd0)), '12x')
_setf([0x02, 0x05, 0x08], '22x')
_setf([0x03, 0x06, 0x09], '32x')
_setf([0x0a, 0x0b, 0x0c, 0x0d, 0x0f, 0x10, 0x11, 0x1d, 0x1e, 0x27], '11x')
_setf([0x12], '11n')
_setf([0x13, 0x16], '21s')
_setf([0x14, 0x17], '31i')
_setf([0x15, 0x19], '21h')
_setf([0x18], '51l')
_setf([0x1a, 0x1c, 0x1f, 0x22, 0xfe, 0xff] + list(range(0x60, 0x6e)), '21c')
_setf([0x1b], '31c')
_setf([0x20, 0x23] + list(range(0x52, 0x60)), '22c')
_setf([0x24, 0xfc] + list(range(0x6e, 0x73)), '35c')
_setf([0x25, 0xfd] + list(range(0x74, 0x79)), '3rc')
_setf([0x26, 0x2b, 0x2c], '31t')
_setf([0x28], '10t')
_setf([0x29], '20t')
_setf([0x2a], '30t')
_setf(list(range(0x2d, 0x32)) + list(range(0x44, 0x52)) + list(range(0x90, 0xb0)), '23x')
_setf(range(0x32, 0x38), '22t')
_setf(range(0x38, 0x3e), '21t')
_setf(range(0xd0, 0xd8), '22s')
_setf(range(0xd8, 0xe3), '22b')
_setf([0xfa], '45cc')
_setf([0xfb], '4rcc')
UNUSED = set(range(0x3e, 0x44)) | {0x73, 0x79, 0x7a} | set(range(0xe3, 0xfa))
assert set(FMT) | UNUSED == set(range(256)) and not (set(FMT) & UNUSED)

_bin = ['add', 'sub', 'mul', 'div', 'rem', 'and', 'or', 'xor', 'shl', 'shr', 'ushr']
_fbin = ['add', 'sub', 'mul', 'div', 'rem']
_acc = ['', '-wide', '-object', '-boolean', '-byte', '-char', '-short']
NAMES = {
    0x00: 'nop', 0x01: 'move', 0x02: 'move/from16', 0x03: 'move/16', 0x04: 'move-wide', 0x05: 'move-wide/from16',
    0x06: 'move-wide/16', 0x07: 'move-object', 0x08: 'move-object/from16', 0x09: 'move-object/16',
    0x0a: 'move-result', 0x0b: 'move-result-wide', 0x0c: 'move-result-object', 0x0d: 'move-exception',
    0x0e: 'return-void', 0x0f: 'return', 0x10: 'return-wide', 0x11: 'return-object', 0x12: 'const/4',
    0x13: 'const/16', 0x14: 'const', 0x15: 'const/high16', 0x16: 'const-wide/16', 0x17: 'const-wide/32',
    0x18: 'const-wide', 0x19: 'const-wide/high16', 0x1a: 'const-string', 0x1b: 'const-string/jumbo',
    0x1c: 'const-class', 0x1d: 'monitor-enter', 0x1e: 'monitor-exit', 0x1f: 'check-cast', 0x20: 'instance-of',
    0x21: 'array-length', 0x22: 'new-instance', 0x23: 'new-array', 0x24: 'filled-new-array',
    0x25: 'filled-new-array/range', 0x26: 'fill-array-data', 0x27: 'throw', 0x28: 'goto', 0x29: 'goto/16',
    0x2a: 'goto/32', 0x2b: 'packed-switch', 0x2c: 'sparse-switch', 0x2d: 'cmpl-float', 0x2e: 'cmpg-float',
    0x2f: 'cmpl-double', 0x30: 'cmpg-double', 0x31: 'cmp-long', 0x32: 'if-eq', 0x33: 'if-ne', 0x34: 'if-lt',
    0x35: 'if-ge', 0x36: 'if-gt', 0x37: 'if-le', 0x38: 'if-eqz', 0x39: 'if-nez', 0x3a: 'if-ltz', 0x3b: 'if-gez',
    0x3c: 'if-gtz', 0x3d: 'if-lez',
    0x6e: 'invoke-virtual', 0x6f: 'invoke-super', 0x70: 'invoke-direct', 0x71: 'invoke-static',
    0x72: 'invoke-interface', 0x74: 'invoke-virtual/range', 0x75: 'invoke-super/range',
    0x76: 'invoke-direct/range', 0x77: 'invoke-static/range', 0x78: 'invoke-interface/range',
    0x7b: 'neg-int', 0x7c: 'not-int', 0x7d: 'neg-long', 0x7e: 'not-long', 0x7f: 'neg-float', 0x80: 'neg-double',
    0x81: 'int-to-long', 0x82: 'int-to-float', 0x83: 'int-to-double', 0x84: 'long-to-int', 0x85: 'long-to-float',
    0x86: 'long-to-double', 0x87: 'float-to-int', 0x88: 'float-to-long', 0x89: 'float-to-double',
    0x8a: 'double-to-int', 0x8b: 'double-to-long', 0x8c: 'double-to-float', 0x8d: 'int-to-byte',
    0x8e: 'int-to-char', 0x8f: 'int-to-short',
    0xd1: 'rsub-int', 0xd9: 'rsub-int/lit8',
    0xfa: 'invoke-polymorphic', 0xfb: 'invoke-polymorphic/range', 0xfc: 'invoke-custom',
    0xfd: 'invoke-custom/range', 0xfe: 'const-method-handle', 0xff: 'const-method-type',
}
for _i, _a in enumerate(_acc):
    NAMES[0x44 + _i] = 'aget' + _a
    NAMES[0x4b + _i] = 'aput' + _a
    NAMES[0x52 + _i] = 'iget' + _a
    NAMES[0x59 + _i] = 'iput' + _a
    NAMES[0x60 + _i] = 'sget' + _a
    NAMES[0x67 + _i] = 'sput' + _a
for _i, _b in enumerate(_bin):
    NAMES[0x90 + _i] = _b + '-int'
    NAMES[0x9b + _i] = _b + '-long'
    NAMES[0xb0 + _i] = _b + '-int/2addr'
    NAMES[0xbb + _i] = _b + '-long/2addr'
for _i, _b in enumerate(_fbin):
    NAMES[0xa6 + _i] = _b + '-float'
    NAMES[0xab + _i] = _b + '-double'
    NAMES[0xc6 + _i] = _b + '-float/2addr'
    NAMES[0xcb + _i] = _b + '-double/2addr'
for _i, _b in enumerate(['add', None, 'mul', 'div', 'rem', 'and', 'or', 'xor']):
    if _b:
        NAMES[0xd0 + _i] = _b + '-int/lit16'
for _i, _b in enumerate(['add', None, 'mul', 'div', 'rem', 'and', 'or', 'xor', 'shl', 'shr', 'ushr']):
    if _b:
        NAMES[0xd8 + _i] = _b + '-int/lit8'
assert set(NAMES) == set(FMT), sorted(set(FMT) ^ set(NAMES))

# which pool an index operand refers to (only the four unambiguous pools are compared)
POOL = {}
for _o in (0x1a, 0x1b):
    POOL[_o] = 'STRING'
for _o in (0x1c, 0x1f, 0x20, 0x22, 0x23, 0x24, 0x25):
    POOL[_o] = 'TYPE'
for _o in range(0x52, 0x6e):
    POOL[_o] = 'FIELD'
for _o in list(range(0x6e, 0x73)) + list(range(0x74, 0x79)):
    POOL[_o] = 'METH'


def flen(f):
    return 2 * int(f[0])


# ------------------------------------------------------------------ concrete spec decoder (used by replay)
def _sx(v, bits):
    return v - (1 << bits) if v >> (bits - 1) & 1 else v


def spec_decode(bs):
    """independent concrete decoding: dict(len, regs, lit, off, idx) from the Dalvik format definitions"""
    op = bs[0]
    if op in UNUSED:
        return None
    f = FMT[op]
    n = flen(f)
    u = [bs[2 * i] | (bs[2 * i + 1] << 8) for i in range(n // 2)]
    AA = u[0] >> 8
    A = (u[0] >> 8) & 0xf
    B = (u[0] >> 12) & 0xf
    d = dict(len=n, fmt=f)
    if f == '10x': d.update(regs=[], zero=AA)
    elif f == '12x': d.update(regs=[A, B])
    elif f == '11n': d.update(regs=[A], lit=_sx(B, 4))
    elif f == '11x': d.update(regs=[AA])
    elif f == '10t': d.update(regs=[], off=_sx(AA, 8))
    elif f == '20t': d.update(regs=[], off=_sx(u[1], 16), zero=AA)
    elif f == '30t': d.update(regs=[], off=_sx(u[1] | u[2] << 16, 32), zero=AA)
    elif f == '22x': d.update(regs=[AA, u[1]])
    elif f == '32x': d.update(regs=[u[1], u[2]], zero=AA)
    elif f == '21t': d.update(regs=[AA], off=_sx(u[1], 16))
    elif f == '21s': d.update(regs=[AA], lit=_sx(u[1], 16))
    elif f == '21h': d.update(regs=[AA], lit=_sx(u[1], 16) << (16 if op == 0x15 else 48))
    elif f == '21c': d.update(regs=[AA], idx=u[1])
    elif f == '23x': d.update(regs=[AA, u[1] & 0xff, u[1] >> 8])
    elif f == '22b': d.update(regs=[AA, u[1] & 0xff], lit=_sx(u[1] >> 8, 8))
    elif f == '22t': d.update(regs=[A, B], off=_sx(u[1], 16))
    elif f == '22s': d.update(regs=[A, B], lit=_sx(u[1], 16))
    elif f == '22c': d.update(regs=[A, B], idx=u[1])
    elif f == '31i': d.update(regs=[AA], lit=_sx(u[1] | u[2] << 16, 32))
    elif f == '31t': d.update(regs=[AA], off=_sx(u[1] | u[2] << 16, 32))
    elif f == '31c': d.update(regs=[AA], idx=u[1] | u[2] << 16)
    elif f == '51l': d.update(regs=[AA], lit=_sx(u[1] | u[2] << 16 | u[3] << 32 | u[4] << 48, 64))
    elif f in ('35c', '45cc'):
        cnt = B
        G = A
        five = [u[2] & 0xf, (u[2] >> 4) & 0xf, (u[2] >> 8) & 0xf, (u[2] >> 12) & 0xf, G]
        d.update(regs=five[:cnt] if cnt <= 5 else None, idx=u[1], count=cnt)
        if f == '45cc':
            d['idx2'] = u[3]
    elif f in ('3rc', '4rcc'):
        d.update(regs=[u[2] + i for i in range(AA)], idx=u[1])
        if f == '4rcc':
            d['idx2'] = u[3]
    return d


def observe(dex, cm, bs):
    """what the real decoder reports for concrete bytes (used by replay and by the differential validation)"""
    from androguard.core.dex.dex_types import Operand
    try:
        ins = dex.get_instruction(cm, bs[0], bs)
    except dex.InvalidInstruction:
        return 'invalid'
    out = dict(len=ins.get_length(), raw=bytes(ins.get_raw()).hex(), name=ins.get_name())
    ops = ins.get_operands()
    out['operands_none'] = ops is None
    if ops is not None:
        out['regs'] = [o[1] for o in ops if o[0] == Operand.REGISTER]
        kinds = [o for o in ops if o[0] >= Operand.KIND]
        out['kind_idx'] = [o[1] for o in kinds]
        out['kind_pool'] = [int(o[0]) - int(Operand.KIND) for o in kinds]
        out['n_ops'] = len(ops)
    lits = ins.get_literals()
    out['lit'] = list(lits) if lits else []
    for k, fn in (('off', 'get_ref_off'), ('idx', 'get_ref_kind')):
        try:
            out[k] = getattr(ins, fn)()
        except Exception:
            out[k] = None
    for a in ('BBBB', 'HHHH', 'C', 'D', 'E', 'F', 'G', 'A', 'AA', 'CCCC'):
        if hasattr(ins, a):
            out['attr_' + a] = getattr(ins, a)
    return out


KIND_NUM = dict(METH=0, STRING=1, FIELD=2, TYPE=3)


def judge(bs, ob):
    """concrete oracle: list of discrepancies between an observation and the spec"""
    sp = spec_decode(bs)
    if sp is None:
        return [] if ob == 'invalid' else ['unused opcode 0x%02x accepted' % bs[0]]
    f = sp['fmt']
    if ob == 'invalid':
        if sp.get('zero') or (f in ('35c', '45cc') and sp['count'] > 5):
            return []                       # permitted rejection (DESIGN 5a)
        return ['valid instruction rejected']
    bad = []
    if ob['len'] != sp['len']:
        bad.append('length %r != %d' % (ob['len'], sp['len']))
    if ob['raw'] != bytes(bs[:sp['len']]).hex():
        bad.append('get_raw %s != input %s' % (ob['raw'], bytes(bs[:sp['len']]).hex()))
    if ob['name'].strip() != NAMES[bs[0]]:
        bad.append('name %r != %r' % (ob['name'], NAMES[bs[0]]))
    if sp['regs'] is not None and not (f in ('35c',) and sp['count'] > 5):
        if ob['operands_none']:
            bad.append('get_operands() returns None')
        else:
            if ob['regs'] != sp['regs']:
                bad.append('registers %r != %r' % (ob['regs'], sp['regs']))
            if 'idx' in sp and f not in ('45cc', '4rcc'):
                if ob['kind_idx'] != [sp['idx']]:
                    bad.append('pool index operand %r != %r' % (ob['kind_idx'], [sp['idx']]))
                if bs[0] in POOL and ob['kind_pool'] != [KIND_NUM[POOL[bs[0]]]]:
                    bad.append('pool kind %r != %s' % (ob['kind_pool'], POOL[bs[0]]))
    if 'lit' in sp and ob['lit'] != [sp['lit']]:
        bad.append('literal %r != %r' % (ob['lit'], sp['lit']))
    if 'off' in sp and ob['off'] != sp['off']:
        bad.append('branch offset %r != %r' % (ob['off'], sp['off']))
    if 'idx' in sp and f not in ('45cc', '4rcc') and ob['idx'] != sp['idx']:
        bad.append('get_ref_kind %r != %r' % (ob['idx'], sp['idx']))
    if f in ('45cc', '4rcc'):
        if ob.get('attr_BBBB') != sp['idx'] or ob.get('attr_HHHH') != sp['idx2']:
            bad.append('method/proto index %r/%r != %r/%r' % (ob.get('attr_BBBB'), ob.get('attr_HHHH'),
                                                              sp['idx'], sp['idx2']))
    return bad


# ------------------------------------------------------------------ symbolic harness
class Ref:
    def __init__(s, k, i): s.k, s.i = k, i
    def get_class_name(s): return 'C'
    def get_name(s): return 'n'
    def get_descriptor(s): return '()V'


class StubCM(common.SymCM):
    def get_string(self, i): return 'S'
    def get_type(self, i): return 'T'
    def get_field(self, i): return ['C', 'T', 'N']
    def get_method_ref(self, i): return Ref('m', i)
    def get_proto(self, i): return ['()', 'V']


def sxz(e, bits):
    return z3.If((e >> (bits - 1)) & 1 == 1, e - (1 << bits), e)


def job(jc, op):
    dex = common.dexmod()
    from androguard.core.dex.dex_types import Operand
    cm = StubCM(dex)
    E.RANGE_CAP[0] = 300
    f = FMT.get(op)
    n = flen(f) if f else 2
    Bs = [None] + [fresh_byte('b%d' % i) for i in range(1, 10)]
    buf = SBytes([op] + Bs[1:n] + [0xa5, 0x5a])     # two guard bytes that no decoder may consume

    def u16(i):
        lo = z3.BitVecVal(op, W) if i == 0 else Bs[2 * i].e
        return lo | (Bs[2 * i + 1].e << 8)
    pre = []
    if f in ('3rc', '4rcc') and not jc.thorough:
        pre = [Bs[1].e <= 24]            # quick tier: register ranges of up to 24 registers
    eng = jc.new_engine(pre=pre)

    def extract(m):
        return dict(bytes=bytes([op] + [mval(m, b) for b in Bs[1:n]]).hex())

    w0 = u16(0)
    AA = (w0 >> 8) & 0xff
    A = (w0 >> 8) & 0xf
    Bn = (w0 >> 12) & 0xf

    def expected():
        if f == '12x': return dict(regs=[A, Bn])
        if f == '11n': return dict(regs=[A], lit=sxz(Bn, 4))
        if f == '11x': return dict(regs=[AA])
        if f == '10x': return dict(regs=[])
        if f == '10t': return dict(regs=[], off=sxz(AA, 8))
        if f == '20t': return dict(regs=[], off=sxz(u16(1), 16))
        if f == '30t': return dict(regs=[], off=sxz(u16(1) | (u16(2) << 16), 32))
        if f == '22x': return dict(regs=[AA, u16(1)])
        if f == '32x': return dict(regs=[u16(1), u16(2)])
        if f == '21t': return dict(regs=[AA], off=sxz(u16(1), 16))
        if f == '21s': return dict(regs=[AA], lit=sxz(u16(1), 16))
        if f == '21h': return dict(regs=[AA], lit=sxz(u16(1), 16) << (16 if op == 0x15 else 48))
        if f == '21c': return dict(regs=[AA], idx=u16(1))
        if f == '23x': return dict(regs=[AA, u16(1) & 0xff, (u16(1) >> 8) & 0xff])
        if f == '22b': return dict(regs=[AA, u16(1) & 0xff], lit=sxz((u16(1) >> 8) & 0xff, 8))
        if f == '22t': return dict(regs=[A, Bn], off=sxz(u16(1), 16))
        if f == '22s': return dict(regs=[A, Bn], lit=sxz(u16(1), 16))
        if f == '22c': return dict(regs=[A, Bn], idx=u16(1))
        if f == '31i': return dict(regs=[AA], lit=sxz(u16(1) | (u16(2) << 16), 32))
        if f == '31t': return dict(regs=[AA], off=sxz(u16(1) | (u16(2) << 16), 32))
        if f == '31c': return dict(regs=[AA], idx=u16(1) | (u16(2) << 16))
        if f == '51l': return dict(regs=[AA], lit=sxz(u16(1) | (u16(2) << 16) | (u16(3) << 32) | (u16(4) << 48), 64))
        if f in ('35c', '45cc'):
            five = [u16(2) & 0xf, (u16(2) >> 4) & 0xf, (u16(2) >> 8) & 0xf, (u16(2) >> 12) & 0xf, A]
            e = dict(var=(Bn, five), idx=u16(1))
            if f == '45cc':
                e['idx2'] = u16(3)
            return e
        if f in ('3rc', '4rcc'):
            e = dict(rng=(AA, u16(2)), idx=u16(1))
            if f == '4rcc':
                e['idx2'] = u16(3)
            return e
        raise AssertionError(f)

    def run():
        """decode, then query every observable *inside* the explored path (their branches belong to the pc)"""
        try:
            ins = dex.get_instruction(cm, op, buf)
        except dex.InvalidInstruction:
            return 'invalid'
        if op in UNUSED:
            return 'accepted'
        obs = []
        obs.append(('length', z3.BoolVal(ins.get_length() == n)))
        obs.append(('name', z3.BoolVal(ins.get_name().strip() == NAMES[op])))
        exp = expected()

        def guarded(k, fn):
            try:
                return fn()
            except Inconclusive:
                raise
            except Exception as e:
                obs.append((k + '_raises_' + type(e).__name__, z3.BoolVal(False)))
                return None
        raw = guarded('get_raw', ins.get_raw)
        if raw is not None:
            obs.append(('get_raw', beq(list(raw), list(buf)[:n])))
        ops = guarded('get_operands', ins.get_operands)
        if ops is None:
            obs.append(('operands_none', z3.BoolVal(False)))
        else:
            regs = [o[1] for o in ops if o[0] == Operand.REGISTER]
            kinds = [o for o in ops if o[0] >= Operand.KIND]
            if 'regs' in exp:
                obs.append(('nregs', z3.BoolVal(len(regs) == len(exp['regs']))))
                obs += [('reg', bv(a) == b) for a, b in zip(regs, exp['regs'])]
            elif 'var' in exp:
                cnt, five = exp['var']
                # for a count above 5 the operand list is unspecified
                obs.append(('nregs', z3.Or(cnt > 5, cnt == len(regs))))
                obs += [('reg', z3.Or(cnt > 5, bv(a) == b)) for a, b in zip(regs, five)]
            elif 'rng' in exp:
                cnt, first = exp['rng']
                obs.append(('nregs', cnt == len(regs)))
                obs += [('reg', bv(a) == first + i) for i, a in enumerate(regs)]
            if 'idx' in exp and f not in ('45cc', '4rcc'):
                gate = (exp['var'][0] > 5) if 'var' in exp else z3.BoolVal(False)
                obs.append(('nkinds', z3.Or(gate, z3.BoolVal(len(kinds) == 1))))
                if kinds:
                    obs.append(('kind_idx', bv(kinds[0][1]) == exp['idx']))
                    if op in POOL:
                        obs.append(('kind_pool', z3.BoolVal(int(kinds[0][0]) - int(Operand.KIND) == KIND_NUM[POOL[op]])))
            elif 'idx' not in exp:
                obs.append(('nkinds', z3.BoolVal(len(kinds) == 0)))
        lits = guarded('get_literals', ins.get_literals)
        if 'lit' in exp and lits is not None:
            obs.append(('nlit', z3.BoolVal(len(lits) == 1)))
            if lits:
                obs.append(('literal', bv(lits[0]) == exp['lit']))
        if 'off' in exp:
            r = guarded('get_ref_off', ins.get_ref_off)
            if r is not None:
                obs.append(('offset', bv(r) == exp['off']))
        if 'idx' in exp and f not in ('45cc', '4rcc'):
            r = guarded('get_ref_kind', ins.get_ref_kind)
            if r is not None:
                obs.append(('ref_kind', bv(r) == exp['idx']))
        if 'idx2' in exp:
            obs.append(('meth_idx', bv(ins.BBBB) == exp['idx']))
            obs.append(('proto_idx', bv(ins.HHHH) == exp['idx2']))
        return obs
    label = 'op%02x' % op
    regions = {'jumbo_signed_index': z3.BoolVal(False) if op != 0x1b else (Bs[5].e >= 0x80),
               'polymorphic_operands_none': z3.BoolVal(op in (0xfa, 0xfb))}
    for pc, (kind, obs) in eng.explore(run, keep_pcs=True):
        jc.reached(label)
        if kind == 'exc':
            jc.obligation(eng, pc, z3.BoolVal(False), extract, regions, label=label,
                          what='decoder raised %s' % type(obs).__name__)
            continue
        if op in UNUSED:
            if obs != 'invalid':
                jc.obligation(eng, pc, z3.BoolVal(False), extract, label=label, what='unused opcode accepted')
            continue
        if obs == 'invalid':
            # permitted only where the format has an unused byte that is non-zero, or A > 5
            if f in ('10x', '20t', '30t', '32x'):
                allowed = AA != 0
            elif f in ('35c', '45cc'):
                allowed = Bn > 5
            else:
                allowed = z3.BoolVal(False)
            jc.obligation(eng, pc, allowed, extract, label=label, what='valid instruction rejected')
            continue
        # one obligation per observable so that a finding names what is wrong
        groups = {}
        for k, o in obs:
            groups.setdefault(k, []).append(o)
        jc.obligations(eng, pc, groups, extract, regions, label=label,
                       what='%s differs from the Dalvik specification')
    eng.partition_guard()
    if op in (0x00, 0x12, 0x24, 0x1b, 0x74):
        jc.sample(dict(opcode=hex(op), format=f, symbolic_operand_bytes=n - 1, paths=eng.st.paths))
    return None


def run(ctx):
    dex = common.dexmod()
    ctx.functions_encoded = FUNCS
    ctx.bounds = dict(opcodes=256, operand_bytes='all 2^(8*(len-1)) patterns per opcode (1..9 symbolic bytes)',
                      range_unwinding='3rc/4rcc register count: quick <= 24, thorough all 0..255 (unwinding cap 300)')
    ctx.stubs = ['SymStruct for struct.Struct', 'ClassManager stub returning fixed names (pool contents are C05/C06)']
    ctx.outside_claim = ['textual get_output formatting', 'the 14 ODEX-only 0xf2ff.. opcodes',
                         'pool kind of 0xfa-0xff (method handle / proto / call site): only the raw index is compared']
    ctx.assumptions = ['DESIGN 5a: non-zero unused byte (10x/20t/30t/32x) and argument count > 5 (35c/45cc) may be '
                       'rejected or decoded with exact round trip']
    ctx.expect_reach(['op%02x' % o for o in range(256)])
    # Serval-style validation on the byte strings used by tests/test_dex.py plus random ones
    import random
    rnd = random.Random(ctx.seed)
    cases = [bytes([o]) + rnd.randbytes(9) for o in range(256)]
    cases += [bytes.fromhex(h) for h in ('12000000000000000000', '13001234000000000000', '1500cdab000000000000',
                                         '1b00010000000000ff00', '6e20010010000000ff00', '7403010002000000ff00')]
    ctx.diff_unhooked(sys.modules[__name__], [c.hex() for c in cases])
    ctx.pmap(job, list(range(256)))


def concrete(c):
    from androguard.core import dex
    return observe(dex, StubCM(dex), bytes.fromhex(c))


def replay(w):
    from androguard.core import dex
    bs = bytes.fromhex(w['bytes']) + b'\xa5\x5a'
    try:
        ob = observe(dex, StubCM(dex), bs)
    except Exception as e:
        return True, 'bytes %s: decoder/accessor raised %r' % (w['bytes'], e)
    bad = judge(bs, ob)
    return bool(bad), 'bytes %s: %s' % (w['bytes'], '; '.join(bad))
