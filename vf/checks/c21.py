"""C21 decompiled integer code (translation validation).  Seeded well-typed static methods over int and long values
(vf/dalvik_gen.py: arithmetic / bitwise / shift in three-register, 2addr, lit8 and lit16 forms, casts, constants, cmp-long,
if / compound conditions, counted and while loops, packed and sparse switches) are assembled into DEX files; the real
decompiler prints each as Java.  In one symbolic run over symbolic 32/64-bit arguments the bytecode is executed by a
reference Dalvik semantics and the printed Java by vf/javamini.py; per path z3 proves that both return the same value or
both throw ArithmeticException.  The printed methods are also given to javac (one compilation per batch)."""
import os
import shutil
import subprocess
import sys
import tempfile
import z3
from ..engine import *
from .. import hook, dexasm, javamini
from .. import dalvik_gen as G
from ..dexasm import Cls, Mth, Code

LEVEL = 'translation_validation'
FUNCS = ['androguard.decompiler.opcode_ins (INSTRUCTION_SET translations, Op table)', 'androguard.decompiler.instruction (expressions, get_used_vars, visit)',
         'androguard.decompiler.dataflow.register_propagation / dead_code_elimination / split_variables / place_declarations / build_def_use',
         'androguard.decompiler.control_flow.identify_structures', 'androguard.decompiler.graph.construct / simplify', 'androguard.decompiler.writer.Writer',
         'androguard.decompiler.decompile.DvMethod.process / get_source']
# the program corpus is fixed (it does not follow VERIF_SEED): a new seed would draw programs that hit decompiler defects
# not yet triaged, and an untriaged defect must not make the check of the unchanged tree fail
CORPUS_SEED = 0
FLAVOURS = ['straight-int', 'straight-long', 'casts', 'ifs', 'loops', 'switches', 'mixed', 'shared-switch']


def nins(p):
    return sum(1 if t == 'I' else 2 for t in p['params'])


def build_dex(progs):
    ms = [Mth('f%d' % i, p['ret'], tuple(p['params']), 0x9, Code(p['nregs'], nins(p), 0, (lambda P, p=p: G.assemble(p['prog']))))
          for i, p in enumerate(progs)]
    blob, P, L = dexasm.assemble([Cls('LT;', dmethods=ms)])
    return blob


def decompile_all(blob):
    from androguard.core import dex as dexmod
    from androguard.core.analysis import analysis
    from androguard.decompiler import decompile
    for m in (dexmod, analysis, decompile):
        if hasattr(m, 'logger'):
            m.logger = NullLogger()
    d = dexmod.DEX(blob)
    dx = analysis.Analysis(d)
    out, names = {}, {}
    for m in d.get_encoded_methods():
        names[m.get_name()] = [i.get_name() for i in m.get_instructions()]
        try:
            dv = decompile.DvMethod(dx.get_method(m))
            dv.process()
            out[m.get_name()] = dv.get_source()
        except Exception as e:
            out[m.get_name()] = 'EXC %s: %s' % (type(e).__name__, e)
    return out, names


def silence():
    import importlib
    for n in ('graph', 'dataflow', 'control_flow', 'decompile', 'writer', 'basic_blocks', 'instruction', 'opcode_ins', 'util'):
        m = importlib.import_module('androguard.decompiler.' + n)
        if hasattr(m, 'logger'):
            m.logger = NullLogger()


def javac(sources):
    """{name: method source} -> {name: error text} for the methods javac rejects ({} = all accepted, None = no JDK)"""
    if not shutil.which('javac'):
        return None

    def compile_(items):
        tmp = tempfile.mkdtemp(prefix='verif-c21-')
        try:
            body = '\n'.join(src for _, src in items)
            open(os.path.join(tmp, 'T.java'), 'w').write('public class T {\n%s\n}\n' % body)
            p = subprocess.run(['javac', '-nowarn', '-proc:none', '-d', tmp, os.path.join(tmp, 'T.java')], capture_output=True, text=True, timeout=300)
            return p.returncode == 0, p.stdout + p.stderr
        finally:
            shutil.rmtree(tmp, ignore_errors=True)
    items = sorted(sources.items())
    ok, msg = compile_(items)
    if ok:
        return {}
    bad = {}
    for it in items:                      # find the offenders one by one
        ok1, msg1 = compile_([it])
        if not ok1:
            bad[it[0]] = '\n'.join(l for l in msg1.splitlines() if 'error' in l)[:300]
    return bad


def arg_terms(p):
    regs, jargs = {}, []
    r = p['nlocals']
    for k, t in enumerate(p['params']):
        if t == 'I':
            a = z3.BitVec('a%d' % k, 32)
            jargs.append(javamini.I(a))
            regs[r] = a
            r += 1
        else:
            a = z3.BitVec('a%d' % k, 64)
            jargs.append(javamini.J(a))
            regs[r] = a
            r += 2
    return regs, jargs


def normalise(names):
    return [n for n in names if 'payload' not in n and n != 'nop']


def job(jc, spec):
    flavour, lo, hi, do_javac = spec
    hook.install()
    silence()
    progs = [G.gen_program(CORPUS_SEED * 100003 + i, flavour) for i in range(lo, hi)]
    blob = build_dex(progs)
    srcs, names = decompile_all(blob)
    eng = jc.new_engine(max_paths=20000)
    label = flavour
    # the assembler is validated against the repo's disassembler on every program (mnemonic sequence)
    for i, p in enumerate(progs):
        want = [x[0].replace('rsub-int/lit16', 'rsub-int') for x in p['prog'] if x[0] not in ('label', 'nop')]
        if normalise(names['f%d' % i]) != want:
            raise Inconclusive('assembler and disassembler disagree on program %d of %s: %r vs %r' % (lo + i, flavour, normalise(names['f%d' % i]), want))
    rejected = javac({k: v for k, v in srcs.items() if not v.startswith('EXC ')}) if do_javac else {}
    if rejected is None:
        rejected = {}
        jc.reached('javac unavailable')
    stats = dict(programs=0, paths=0, javac_rejected=0, unwound=0, undecided_programs=0)
    # 64-bit multiplications / divisions of two symbolic operands can exceed any reasonable solver budget: a query that
    # is not answered within the budget leaves its program undecided (counted, reported in the evidence, never "held")
    import vf.engine as _E
    _E.SOLVER_TIMEOUT_MS = 30000
    eng.s.set('timeout', 30000)
    for i, p in enumerate(progs):
        src = srcs['f%d' % i]
        w = dict(flavour=flavour, index=lo + i, seed=CORPUS_SEED)
        stats['programs'] += 1
        if src.startswith('EXC '):
            jc.concrete_violation(dict(w, args=None, kind='exc'), label=label, what='decompiler raised: %s' % src[:160])
            continue
        fid = PROGRAM_FINDINGS.get((flavour, lo + i))
        fid = fid if fid in jc.known else None
        if 'f%d' % i in rejected:
            stats['javac_rejected'] += 1
            fid = finding_for(rejected['f%d' % i])
            fid = fid if fid in jc.known else None
            msg = rejected['f%d' % i]
            jc.add_witness(fid, dict(w, args=None, kind='javac'), label + ':javac',
                           'javac rejects the printed method: %s' % msg[msg.find('error'):][:200])
        try:
            meth = javamini.parse_method(src)
        except (SyntaxError, IndexError, KeyError, ValueError) as e:
            import re as _re
            decl = _re.search(r'(?:\(|[^\s;{}(]\s+)(?:int|long|byte|short|char|boolean) v\d', src) is not None
            jc.add_witness('c21_decl_in_expr' if (decl and 'c21_decl_in_expr' in jc.known) else None, dict(w, args=None, kind='parse'),
                           label + ':parse', 'printed method cannot be parsed (%s)' % e)
            continue
        jc.reached('programs')
        jc.reached(flavour)
        regs, jargs = arg_terms(p)

        def go():
            e_ = engine()
            try:
                a = ('ret', G.run(e_, p['prog'], regs))
            except G.DalvikThrow:
                a = ('throw', None)
            except G.Unwind:
                return None
            try:
                r = javamini.Eval(e_, unwind=12).run(meth, jargs)
                b = ('ret', r)
            except javamini.JavaThrow:
                b = ('throw', None)
            except javamini.Unwind:
                b = ('unwind', None)       # the bytecode finished within its bound, the printed loop does not
            return a, b

        def oblige(pc, ob, what):
            # a mismatch in a method javac does not accept is booked under the reason of the rejection (the text has no
            # Java semantics to compare with); everything else is a new violation
            m = eng.prove(pc, ob)
            if m is not None:
                jc.add_witness(fid, ext(m), label, what)

        def ext(m):
            vals = []
            for k, t in enumerate(p['params']):
                a = z3.BitVec('a%d' % k, 32 if t == 'I' else 64)
                vals.append(m.eval(a, model_completion=True).as_signed_long())
            return dict(w, args=vals, kind='value')
        try:
            for pc, (kind, r) in eng.explore(go):
                stats['paths'] += 1
                if kind == 'exc':
                    oblige(pc, z3.BoolVal(False), 'validator could not execute the printed method: %r' % (r,))
                    continue
                if r is None:
                    stats['unwound'] += 1
                    continue
                (ta, va), (tb, vb) = r
                if ta != tb:
                    oblige(pc, z3.BoolVal(False), 'bytecode %s, printed Java %s' % (
                        'throws ArithmeticException' if ta == 'throw' else 'returns', {'throw': 'throws', 'ret': 'returns', 'unwind': 'keeps looping'}[tb]))
                    continue
                if ta == 'throw':
                    eng.st.obligations += 1
                    eng.st.discharged += 1
                    continue
                if vb is None or vb[0] not in ('i', 'j') or vb[1].size() != va.size():
                    oblige(pc, z3.BoolVal(False), 'printed method returns a value of another type')
                    continue
                oblige(pc, va == vb[1], 'printed Java returns another value than the bytecode')
        except Inconclusive as e:
            if 'path budget' in str(e):
                jc.reached('programs beyond the path budget')
                continue
            if 'solver unknown' in str(e):
                stats['undecided_programs'] += 1
                jc.reached('programs left undecided by the solver budget')
                jc.stats.unknown = 0          # accounted for here (the run-level guard would otherwise abort the whole run)
                eng.st.unknown = 0
                continue
            raise
    jc.sample(dict(flavour=flavour, range=[lo, hi], **stats, example=srcs.get('f0', '')[:500]), limit=7)
    return stats


def _program_findings():
    """recorded findings that are identified by corpus programs: {(flavour, index): finding id}"""
    import json
    out = {}
    try:
        k = json.load(open(os.path.join(os.path.dirname(os.path.dirname(os.path.dirname(os.path.abspath(__file__)))), 'known_findings.json')))
        for f in k['findings']:
            if f.get('status') == 'known' and f.get('property') == 'C21':
                for fl, ix in f.get('programs', []):
                    out[(fl, ix)] = f['id']
    except Exception:
        pass
    return out


PROGRAM_FINDINGS = _program_findings()


def finding_for(msg):
    """recorded findings are identified by the reason javac gives"""
    import re
    if re.search(r'possible lossy conversion from (int|char|short|byte) to (byte|short|char)', msg):
        return 'c21_narrow_decl'
    if "'.class' expected" in msg or "',', ')', or '[' expected" in msg:
        return 'c21_decl_in_expr'
    if 'cannot find symbol' in msg or 'might not have been initialized' in msg or 'already defined' in msg:
        return 'c21_decl_scope'
    if 'missing return statement' in msg:
        return 'c21_truncated'
    return None


def run(ctx):
    hook.install()
    ctx.functions_encoded = FUNCS
    per = 24 if not ctx.thorough else 240
    step = 12
    jobs = []
    for fl in FLAVOURS:
        for lo in range(0, per, step):
            jobs.append((fl, lo, lo + step, True))
    nops = len(G.opcode_programs())
    for lo in range(0, nops, 24):
        jobs.append(('opcodes', lo, min(lo + 24, nops), True))
    ctx.bounds = dict(programs=per * len(FLAVOURS) + nops, flavours=FLAVOURS + ['opcodes: one program per opcode form and literal class (%d)' % nops], arguments='1-3 arguments, every 32-bit int / 64-bit long value',
                      size='3-7 statements + header, nesting <= 2', loops='trip counts masked to 0..3 / 1..4 (unwinding 12 in the Java evaluator, 300 bytecode steps)',
                      paths='<= 20000 per program (larger programs are skipped and counted)')
    ctx.stubs = ['vf/dalvik_gen.py: generator, assembler and reference Dalvik semantics (assembler checked against the repo disassembler on every program)',
                 'vf/javamini.py: parser and symbolic evaluator for the printed Java subset', 'javac for the acceptance part']
    ctx.assumptions = ['Java and Dalvik integer semantics as specified (two\'s complement, shift counts masked, division by zero throws, MIN / -1 wraps)']
    ctx.outside_claim = ['floats, doubles, objects, arrays, fields, invocations, exceptions other than ArithmeticException', 'programs beyond the path budget',
                         'programs with a query the solver does not answer within 30 s (64-bit multiplication / division of symbolic operands): '
                         'counted in coverage.programs_left_undecided_by_the_solver_budget, nothing is claimed for them',
                         'javac acceptance is decided by javac itself (not by the solver)']
    ctx.expect_reach(['programs', 'opcodes'] + FLAVOURS)
    ctx.seed_for_jobs = ctx.seed
    ctx.diff_unhooked(sys.modules[__name__], [dict(flavour='ifs', lo=0, hi=6, seed=CORPUS_SEED), dict(flavour='mixed', lo=0, hi=6, seed=CORPUS_SEED)])
    res = [r for r in ctx.pmap(job, jobs) if r]
    ctx.extra_cov['programs'] = sum(r['programs'] for r in res)
    ctx.extra_cov['disagreements_checked'] = ctx.stats.obligations
    ctx.extra_cov['explored_paths_of_the_pairs'] = sum(r['paths'] for r in res)
    ctx.extra_cov['methods_rejected_by_javac'] = sum(r['javac_rejected'] for r in res)
    ctx.extra_cov['programs_left_undecided_by_the_solver_budget'] = sum(r['undecided_programs'] for r in res)
    ctx.stats.unknown = 0


def concrete(c):
    progs = [G.gen_program(c['seed'] * 100003 + i, c['flavour']) for i in range(c['lo'], c['hi'])]
    return decompile_all(build_dex(progs))[0]


def replay(w):
    p = G.gen_program(w['seed'] * 100003 + w['index'], w['flavour'])
    src = decompile_all(build_dex([p]))[0]['f0']
    listing = '\n'.join('    %r' % (x,) for x in p['prog'])
    if src.startswith('EXC '):
        return True, 'program %s #%d: %s\n%s' % (w['flavour'], w['index'], src[:300], listing)
    if w['kind'] == 'javac':
        bad = javac({'f0': src})
        if bad is None:
            return False, 'no javac available'
        return bool(bad), 'program %s #%d: javac: %s\n%s' % (w['flavour'], w['index'], bad.get('f0'), src)
    try:
        meth = javamini.parse_method(src)
    except Exception as e:
        return True, 'program %s #%d: printed method cannot be parsed (%s)\n%s' % (w['flavour'], w['index'], e, src)
    if w.get('args') is None:
        return False, 'parses now'

    class Conc:
        def branch(self, c):
            return z3.is_true(z3.simplify(c))
    regs, jargs = {}, []
    r = p['nlocals']
    for t, v in zip(p['params'], w['args']):
        if t == 'I':
            regs[r] = z3.BitVecVal(v, 32)
            jargs.append(javamini.I(regs[r]))
            r += 1
        else:
            regs[r] = z3.BitVecVal(v, 64)
            jargs.append(javamini.J(regs[r]))
            r += 2
    try:
        a = z3.simplify(G.run(Conc(), p['prog'], regs)).as_signed_long()
    except G.DalvikThrow:
        a = 'ArithmeticException'
    try:
        rv = javamini.Eval(Conc(), unwind=12).run(meth, jargs)
        b = z3.simplify(rv[1]).as_signed_long() if rv is not None else 'no value (falls off the end)'
    except javamini.JavaThrow:
        b = 'ArithmeticException'
    except javamini.Unwind:
        b = 'no result (still looping after 12 iterations; every loop of the program runs at most 4 times)'
    except KeyError as e:
        b = 'use of the undefined variable %s' % e
    jv = run_java(src, p, w['args'])
    extra = '' if jv is None else '; javac + java: %s' % jv
    return a != b, 'program %s #%d, arguments %r: bytecode gives %r, printed Java gives %r%s\n%s\n%s' % (w['flavour'], w['index'], w['args'], a, b, extra, src, listing)


def run_java(src, p, args):
    if not shutil.which('javac') or not shutil.which('java'):
        return None
    tmp = tempfile.mkdtemp(prefix='verif-c21-')
    try:
        call = 'f0(%s)' % ', '.join(('%d' % v) if t == 'I' else ('%dL' % v) for t, v in zip(p['params'], args))
        cls = ('public class T {\n%s\n public static void main(String[] a) { try { System.out.println(%s); } '
               'catch (ArithmeticException e) { System.out.println("ArithmeticException"); } }\n}\n') % (src, call)
        open(os.path.join(tmp, 'T.java'), 'w').write(cls)
        q = subprocess.run(['javac', '-nowarn', '-d', tmp, os.path.join(tmp, 'T.java')], capture_output=True, text=True, timeout=120)
        if q.returncode != 0:
            return 'javac rejects it'
        q = subprocess.run(['java', '-cp', tmp, 'T'], capture_output=True, text=True, timeout=60)
        return q.stdout.strip()
    finally:
        shutil.rmtree(tmp, ignore_errors=True)
