"""C25 short-circuit conditions (translation validation).  Every chain of 2-3 conditional nodes (if-eqz / if-nez on one
argument each) over up to three exits that return distinct constants is assembled into a DEX method; the real decompiler
(graph construction, short_circuit_struct, Condition / ShortCircuitBlock.neg, Writer.visit_cond_node /
visit_short_circuit_condition) turns it into Java text; the text is parsed and executed symbolically (vf/javamini.py) on
symbolic int arguments, path by path, and z3 proves that the returned constant equals the one the branch chain selects -
for all argument values, i.e. for every combination of branch outcomes."""
import itertools
import sys
import z3
from ..engine import *
from .. import hook, dexasm, javamini
from ..dexasm import Cls, Mth, Code

LEVEL = 'translation_validation'
FUNCS = ['androguard.decompiler.control_flow.short_circuit_struct / MergeNodes', 'identify_structures', 'if_struct',
         'androguard.decompiler.basic_blocks.Condition.neg / visit', 'ShortCircuitBlock.neg / visit_cond', 'CondBlock.neg',
         'androguard.decompiler.instruction.ConditionalZExpression.neg / visit', 'androguard.decompiler.writer.Writer.visit_cond_node',
         'Writer.visit_short_circuit_condition', 'Writer.visit_condz_expression', 'androguard.decompiler.decompile.DvMethod.process',
         'graph.construct / simplify / split_if_nodes']
EXITS = [11, 22, 33]


def programs(K):
    """all chains of K conditional nodes: node i = (op, taken, fall) with targets among later nodes and exits"""
    def targets(i):
        return [('n', j) for j in range(i + 1, K)] + [('e', j) for j in range(len(EXITS))]
    # chains of 4 (thorough tier, beyond the property's 2 and 3): only nodes whose two targets differ
    per_node = [[(op, t, f) for op in ('eqz', 'nez') for t in targets(i) for f in targets(i) if K < 4 or t != f] for i in range(K)]
    for prog in itertools.product(*per_node):
        # every node reachable from node 0, at least two different exits (else nothing to decide)
        reach, todo = {0}, [0]
        while todo:
            i = todo.pop()
            for t in prog[i][1:]:
                if t[0] == 'n' and t[1] not in reach:
                    reach.add(t[1])
                    todo.append(t[1])
        if len(reach) != K:
            continue
        yield prog


def units_of(prog, join=False):
    """code units of the method; layout: node blocks in order, then the exit blocks; registers: v0 local, v1.. arguments.
    join=False: every exit returns its constant; join=True: v0 starts as EXITS[2], exits 0 and 1 assign their constant and
    jump to one common return, exit 2 IS that common return (so that the conditions get a follow node, one target of a
    condition can be the follow itself, and the writer may negate the condition)"""
    K = len(prog)
    # block sizes: node = if (2 units) [+ goto/16 (2 units) when the fall-through target is not the next block]
    used_exits = sorted({t[1] for n in prog for t in n[1:] if t[0] == 'e' and not (join and t[1] == 2)})
    order = [('n', i) for i in range(K)] + [('e', j) for j in used_exits]
    if join:
        order.append(('e', 2))
    need_goto = {}
    for i, (op, t, f) in enumerate(prog):
        nxt = order[order.index(('n', i)) + 1] if order.index(('n', i)) + 1 < len(order) else None
        need_goto[i] = f != nxt
    off = {}
    u = 2 if join else 0
    for b in order:
        off[b] = u
        if b[0] == 'n':
            u += 2 + (2 if need_goto[b[1]] else 0)
        elif join and b[1] == 2:
            u += 1
        else:
            u += 4 if join else 3
    end = off.get(('e', 2)) if join else None
    units = [0x0013, EXITS[2]] if join else []
    for b in order:
        if b[0] == 'n':
            op, t, f = prog[b[1]]
            here = off[b]
            units += [(0x38 if op == 'eqz' else 0x39) | ((1 + b[1]) << 8), (off[t] - here) & 0xffff]
            if need_goto[b[1]]:
                units += [0x0029, (off[f] - (here + 2)) & 0xffff]
        elif join and b[1] == 2:
            units += [0x000f]
        elif join:
            units += [0x0013, EXITS[b[1]], 0x0029, (end - (off[b] + 2)) & 0xffff]
        else:
            units += [0x0013, EXITS[b[1]], 0x000f]
    return units


def ref_value(prog, args):
    """the constant the branch chain selects, as a z3 term of the arguments"""
    def go(t):
        if t[0] == 'e':
            return z3.BitVecVal(EXITS[t[1]], 32)
        op, tk, fl = prog[t[1]]
        c = args[t[1]] == 0 if op == 'eqz' else args[t[1]] != 0
        return z3.If(c, go(tk), go(fl))
    return go(('n', 0))


def ref_concrete(prog, vals):
    t = ('n', 0)
    while t[0] == 'n':
        op, tk, fl = prog[t[1]]
        c = (vals[t[1]] == 0) if op == 'eqz' else (vals[t[1]] != 0)
        t = tk if c else fl
    return EXITS[t[1]]


def build_dex(progs, join=False):
    K = len(progs[0])
    ms = [Mth('f%d' % i, 'I', ('I',) * K, 0x9, Code(1 + K, K, 0, (lambda P, p=p: units_of(p, join)))) for i, p in enumerate(progs)]
    blob, P, L = dexasm.assemble([Cls('LT;', dmethods=ms)])
    return blob


def decompile_all(blob):
    from androguard.core import dex as dexmod
    from androguard.core.analysis import analysis
    from androguard.decompiler import decompile
    for m in (dexmod, analysis, decompile):
        if hasattr(m, 'logger'):
            m.logger = NullLogger()
    d = dexmod.DEX(blob)
    dx = analysis.Analysis(d)
    out = {}
    for m in d.get_encoded_methods():
        try:
            dv = decompile.DvMethod(dx.get_method(m))
            dv.process()
            out[m.get_name()] = dv.get_source()
        except Exception as e:
            out[m.get_name()] = 'EXC %s: %s' % (type(e).__name__, e)
    return out


def silence():
    import importlib
    for n in ('graph', 'dataflow', 'control_flow', 'decompile', 'writer', 'basic_blocks', 'instruction', 'opcode_ins', 'util'):
        m = importlib.import_module('androguard.decompiler.' + n)
        if hasattr(m, 'logger'):
            m.logger = NullLogger()


def job(jc, spec):
    K, lo, hi = spec[:3]
    join = len(spec) > 3 and spec[3]
    hook.install()
    silence()
    progs = list(itertools.islice(programs(K), lo, hi))
    if not progs:
        return
    blob = build_dex(progs, join)
    srcs = decompile_all(blob)
    eng = jc.new_engine()
    merged = 0
    for i, prog in enumerate(progs):
        src = srcs['f%d' % i]
        label = 'chain of %d conditions%s' % (K, ', exits joined' if join else '')
        w = dict(K=K, join=join, prog=[[n[0], list(n[1]), list(n[2])] for n in prog])
        if src.startswith('EXC '):
            jc.concrete_violation(dict(w, args=None), label=label, what='decompiler raised: %s' % src[:120])
            continue
        try:
            meth = javamini.parse_method(src)
        except (SyntaxError, IndexError, KeyError) as e:
            jc.concrete_violation(dict(w, args=None, src=src), label=label, what='printed method is not Java the validator can read (%s)' % e)
            continue
        jc.reached('programs')
        if '&&' in src or '||' in src:
            merged += 1
            jc.reached('merged conditions')
        else:
            continue            # no merged condition was printed: nothing of this property to judge (value equality is C21)
        A = [z3.BitVec('a%d' % k, 32) for k in range(K)]
        want = ref_value(prog, A)

        def go():
            ev = javamini.Eval(engine(), unwind=4)
            try:
                r = ev.run(meth, [javamini.I(a) for a in A])
            except javamini.JavaThrow as e:
                return ('throw', str(e))
            except javamini.Unwind:
                return ('unwind', None)
            return ('ret', r)

        def ext(m):
            return dict(w, args=[m.eval(a, model_completion=True).as_signed_long() for a in A], src=src)
        for pc, (kind, r) in eng.explore(go):
            if kind == 'exc':
                jc.obligation(eng, pc, z3.BoolVal(False), ext, label=label, what='validator could not execute the printed method: %r' % (r,))
                continue
            tag, val = r
            if tag != 'ret' or val is None or val[0] != 'i':
                jc.obligation(eng, pc, z3.BoolVal(False), ext, label=label, what='printed method does not return an int on this path (%s)' % tag)
                continue
            jc.obligation(eng, pc, val[1] == want, ext, label=label, what='printed condition routes to another exit than the branch chain')
    jc.sample(dict(case='K=%d programs %d..%d%s' % (K, lo, hi, ' joined' if join else ''), with_merged_condition=merged, example=srcs.get('f0', '')[:400]), limit=4)
    return dict(programs=len(progs), merged=merged)


def run(ctx):
    hook.install()
    ctx.functions_encoded = FUNCS
    n2 = sum(1 for _ in programs(2))
    n3 = sum(1 for _ in programs(3))
    step = 48
    jobs = [(2, lo, min(lo + step, n2), j) for lo in range(0, n2, step) for j in (False, True)]
    jobs += [(3, lo, min(lo + step, n3), j) for lo in range(0, n3, step) for j in (False, True)]
    n4 = 0
    if ctx.thorough:
        # chains of four conditions: seeded blocks out of the full enumeration
        import random
        total4 = sum(1 for _ in programs(4))
        rnd = random.Random(ctx.seed)
        los = list(range(0, total4, step))
        rnd.shuffle(los)
        los = sorted(los[:600])
        n4 = len(los) * step
        # (returning exits only: with joined exits a shared assigning block that is not a follow node is printed once only -
        # the defect recorded as c21_shared_block_once under C21 - which has nothing to do with the merged condition)
        jobs += [(4, lo, min(lo + step, total4), False) for lo in los]
    ctx.bounds = dict(chains_of_2=n2, chains_of_3=n3, chains_of_4=('%d (seeded blocks of the enumeration)' % n4) if n4 else 'thorough tier only',
                      node='if-eqz / if-nez on its own int argument; taken and fall-through targets among the later nodes and 3 exits',
                      exit_forms='each chain twice: exits return their constant / exits assign it and join in one return (conditions get a follow node)',
                      arguments='all 2^32 values per argument (only ==0 / !=0 matters)', exits=EXITS)
    ctx.stubs = ['programs assembled by vf/dexasm.py; the decompiler runs concretely on them',
                 'vf/javamini.py parses and symbolically executes the printed Java (validated against javac + java on the replayed witnesses when a JDK is present)']
    ctx.assumptions = ['javamini implements Java semantics for the printed subset (if / else / && / || / ! / == / != / return / int locals)']
    ctx.outside_claim = ['chains of five or more conditions (four: sampled in the thorough tier)', 'conditions on expressions other than a register compared with zero',
                         'chains inside loops, switches or try blocks']
    ctx.expect_reach(['programs', 'merged conditions'])
    ctx.diff_unhooked(sys.modules[__name__], [dict(K=2, lo=0, hi=24), dict(K=3, lo=100, hi=110), dict(K=3, lo=200, hi=210, join=True)])
    res = [r for r in ctx.pmap(job, jobs) if r]
    ctx.extra_cov['programs'] = sum(r['merged'] for r in res)
    ctx.extra_cov['programs_decompiled'] = sum(r['programs'] for r in res)
    ctx.extra_cov['disagreements_checked'] = ctx.stats.obligations
    ctx.extra_cov['programs_note'] = 'programs = chains whose printed source contains a merged (&& / ||) condition; only those are judged'


def concrete(c):
    progs = list(itertools.islice(programs(c['K']), c['lo'], c['hi']))
    return decompile_all(build_dex(progs, c.get('join', False)))


def run_java(src, name, args):
    """compile the printed method with javac and run it (independent confirmation); None if no JDK is available"""
    import os
    import shutil
    import subprocess
    import tempfile
    if not shutil.which('javac') or not shutil.which('java'):
        return None
    tmp = tempfile.mkdtemp(prefix='verif-c25-')
    try:
        body = src
        cls = 'public class T {\n%s\n public static void main(String[] a) { System.out.println(%s(%s)); }\n}\n' % (
            body, name, ', '.join(str(x) for x in args))
        open(os.path.join(tmp, 'T.java'), 'w').write(cls)
        p = subprocess.run(['javac', '-d', tmp, os.path.join(tmp, 'T.java')], capture_output=True, text=True, timeout=120)
        if p.returncode != 0:
            return 'javac: ' + p.stderr[-300:]
        p = subprocess.run(['java', '-cp', tmp, 'T'], capture_output=True, text=True, timeout=60)
        return p.stdout.strip()
    finally:
        shutil.rmtree(tmp, ignore_errors=True)


def replay(w):
    prog = tuple((n[0], tuple(n[1]), tuple(n[2])) for n in w['prog'])
    src = decompile_all(build_dex([prog], w.get('join', False)))['f0']
    if src.startswith('EXC '):
        return True, 'chain %r: %s' % (w['prog'], src[:200])
    try:
        meth = javamini.parse_method(src)
    except Exception as e:
        return True, 'chain %r: printed method cannot be parsed (%s):\n%s' % (w['prog'], e, src)
    if w.get('args') is None:
        return False, 'printed method parses now'
    want = ref_concrete(prog, w['args'])

    class Conc:
        def branch(self, c):
            return z3.is_true(z3.simplify(c))
    try:
        r = javamini.Eval(Conc(), unwind=4).run(meth, [javamini.I(z3.BitVecVal(a, 32)) for a in w['args']])
        got = z3.simplify(r[1]).as_signed_long() if r is not None else None
    except Exception as e:
        got = 'raised %r' % e
    jv = run_java(src, 'f0', w['args'])
    extra = '' if jv is None else ' (javac + java print %s)' % jv
    return got != want, 'chain %r with arguments %r: the bytecode returns %d, the printed method returns %r%s\n%s' % (
        w['prog'], w['args'], want, got, extra, src)
