"""C28 resource tables.  Tables come from the independent writer vf/arscw.py; one group of fields at a time is overlaid
with symbolic bytes (over its whole well-formed domain) and the real ARSCParser runs on them: chunk walk, entry offset
tables (plain / 16-bit / sparse), entries (plain / compact / complex), configurations, _analyse, get_res_configs,
ResourceResolver.  Every listing and every resolved id must equal the reference semantics of the format applied to the
same symbolic fields."""
import itertools
import random
import sys
import z3
from ..engine import *
from ..sstr import SStr
from .. import common, hook, arscw
from . import c27

FUNCS = ['androguard.core.axml.ARSCParser.__init__', 'ARSCParser._analyse', 'get_res_configs', 'get_resolved_res_configs',
         'ResourceResolver.resolve/_resolve_into_result/put_ate_value/put_item_value', 'get_string', 'get_res_id_by_key',
         'get_packages_names', 'get_locales', 'get_types', 'ARSCResTablePackage', 'ARSCResTypeSpec', 'ARSCResType',
         'ARSCResTableConfig.__init__/get_language_and_region/_get_tuple', 'ARSCResTableEntry', 'ARSCComplex',
         'ARSCResStringPoolRef', 'StringBlock', 'ARSCHeader', 'format_value']
NO_ENTRY = 0xFFFFFFFF
TYPES = sorted(v for v in c27.T.values() if v not in (0, 1, 3))       # literal (non string, non reference) value types
CFG_FIELDS = arscw.CONFIG_FIELDS + ['screenConfig2']


def loc(s):
    """packed locale word of 'll', 'll-rCC', 'lll' (AOSP packLanguageOrRegion)"""
    def pack(x, base):
        if len(x) == 2:
            return [ord(x[0]), ord(x[1])]
        if len(x) == 3:
            a, b, c = [ord(ch) - base for ch in x]
            return [0x80 | (c << 2) | (b >> 3), ((b << 5) | a) & 0xff]
        return [0, 0]
    lang, _, reg = s.partition('-r')
    lb, rb = pack(lang, ord('a')), pack(reg, ord('0'))
    return lb[0] | lb[1] << 8 | rb[0] << 16 | rb[1] << 24


def unloc(w):
    """AOSP unpackLanguageOrRegion / the locale listing string of a packed locale word"""
    def unpack(b0, b1, base):
        if b0 & 0x80:
            return chr(base + (b1 & 0x1f)) + chr(base + (((b1 & 0xe0) >> 5) + ((b0 & 0x03) << 3))) + chr(base + ((b0 & 0x7c) >> 2))
        return (chr(b0) if b0 else '') + (chr(b1) if b1 else '')
    if w == 0:
        return '\x00\x00'
    lang = unpack(w & 0xff, (w >> 8) & 0xff, ord('a'))
    reg = unpack((w >> 16) & 0xff, (w >> 24) & 0xff, ord('0'))
    return lang + '-r' + reg if reg else lang


# ------------------------------------------------------------------ templates
def P(key, ty, data, flags=0):
    return dict(key=key, kind='plain', value=(ty, data), flags=flags)


def K(key, ty, data):
    return dict(key=key, kind='compact', value=(ty, data), flags=0)


def X(key, items, parent=0, flags=0):
    return dict(key=key, kind='complex', parent=parent, items=list(items), flags=flags)


def curated():
    S_ = ['hello', 'hallo', 'world', 'x<y', 'Grüße', 'T\U0001F600']
    return [
        dict(strings=S_, utf8=True, packages=[dict(id=0x7f, name='com.x', types=['string', 'integer', 'style', 'color'], keys=['a', 'b', 'c', 'st', 'k'],
             chunks=[
                 dict(type=1, config={}, layout='plain', count=3, entries={0: P(0, 3, 0), 2: P(1, 1, 0x7f010000, flags=2)}),
                 dict(type=1, config=dict(locale=loc('de')), layout='sparse', count=3, entries={0: P(0, 3, 1), 2: P(1, 3, 4)}),
                 dict(type=2, config={}, layout='offset16', count=3, entries={1: K(2, 0x10, 42), 2: P(4, 0x11, 0x1f)}),
                 dict(type=3, config=dict(size=36), layout='plain', count=1,
                      entries={0: X(3, [(0x01010001, (1, 0x7f010000)), (0x01010002, (0x11, 255)), (0x01010003, (3, 2))])}),
                 dict(type=4, config=dict(screenType=240 << 16), layout='plain', count=2, entries={0: P(4, 0x1c, 0xff102030), 1: P(0, 1, 0x7f020001)}),
             ])]),
        dict(strings=['one', 'two', 'three', 'vier'], utf8=False, packages=[
            dict(id=0x7f, name='org.app', types=['string', 'bool'], keys=['s1', 's2', 'flag'],
                 chunks=[
                     dict(type=1, config={}, layout='plain', count=2, entries={0: P(0, 3, 0), 1: P(1, 3, 1)}),
                     dict(type=1, config=dict(locale=loc('de-rAT'), size=48), layout='plain', count=2, entries={1: P(1, 3, 3)}),
                     dict(type=1, config=dict(locale=loc('fil')), layout='offset16', count=2, entries={0: P(0, 3, 2)}),
                     dict(type=2, config={}, layout='sparse', count=4, entries={3: P(2, 0x12, 0xffffffff)}),
                 ]),
            dict(id=0x02, name='lib.two', types=['string'], keys=['z'],
                 chunks=[dict(type=1, config={}, layout='plain', count=1, entries={0: P(0, 1, 0x7f010001)})])]),
        # the same resource under two configurations that differ only in the locale script
        dict(strings=['cyr', 'lat', 'dflt'], utf8=True, packages=[
            dict(id=0x7f, name='a.b', types=['string'], keys=['t'],
                 chunks=[
                     dict(type=1, config={}, layout='plain', count=1, entries={0: P(0, 3, 2)}),
                     dict(type=1, config=dict(locale=loc('sr')), layout='plain', count=1, entries={0: P(0, 3, 0)}),
                     dict(type=1, config=dict(locale=loc('sr'), localeScript=b'Latn'), layout='plain', count=1, entries={0: P(0, 3, 1)}),
                 ])]),
        # reference cycle across types and a self reference
        dict(strings=['lit'], utf8=True, packages=[
            dict(id=0x7f, name='cy', types=['string', 'array'], keys=['p', 'q', 'r', 'arr'],
                 chunks=[
                     dict(type=1, config={}, layout='plain', count=3, entries={0: P(0, 1, 0x7f010001), 1: P(1, 1, 0x7f020000), 2: P(2, 1, 0x7f010002)}),
                     dict(type=2, config={}, layout='plain', count=1, entries={0: X(3, [(0x02000000, (1, 0x7f010000)), (0x02000001, (3, 0)), (0x02000002, (1, 0))])}),
                 ])]),
    ]


def gen_table(rnd):
    strings = ['s%d' % i for i in range(rnd.randrange(3, 7))]
    ntypes = rnd.randrange(1, 4)
    types = rnd.sample(['string', 'integer', 'bool', 'color', 'dimen', 'id', 'style'], ntypes)
    if 'string' not in types:
        types[0] = 'string'
    keys = ['k%d' % i for i in range(6)]
    cfgs = [{}, dict(locale=loc('de')), dict(locale=loc('fr-rCA')), dict(screenType=320 << 16), dict(version=21), dict(locale=loc('haw'))]
    chunks = []
    used_keys = {}
    for t in range(1, ntypes + 1):
        count = rnd.randrange(1, 4)
        for cfg in rnd.sample(cfgs, rnd.randrange(1, 3)):
            entries = {}
            for i in range(count):
                if rnd.random() < 0.7:
                    key = used_keys.setdefault((t, i), len(used_keys) % len(keys))
                    r = rnd.random()
                    if types[t - 1] == 'string':
                        ty, da = 3, rnd.randrange(len(strings))
                    else:
                        ty = rnd.choice(TYPES)
                        da = rnd.getrandbits(32)
                        if ty == 5:
                            da = (da & ~0xf) | rnd.randrange(6)
                        if ty == 6:
                            da = (da & ~0xf) | rnd.randrange(2)
                    if r < 0.15:
                        ty, da = 1, 0x7f000000 | rnd.randrange(1, ntypes + 1) << 16 | rnd.randrange(3)
                    if r > 0.85 and types[t - 1] == 'style':          # bags only in a bag type
                        entries[i] = X(key, [(0x01010000 + j, (rnd.choice(TYPES[:4] + [0x10, 0x11]), rnd.getrandbits(32) & ~0xf)) for j in range(rnd.randrange(1, 3))])
                    elif r > 0.7:
                        entries[i] = K(key, ty, da)
                    else:
                        entries[i] = P(key, ty, da, flags=rnd.choice([0, 0, 2]))
            if not entries:
                entries[0] = P(used_keys.setdefault((t, 0), len(used_keys) % len(keys)), 3, 0)
            chunks.append(dict(type=t, config=dict(cfg), layout=rnd.choice(['plain', 'plain', 'sparse', 'offset16']), count=count, entries=entries))
    return dict(strings=strings, utf8=rnd.random() < 0.5, packages=[dict(id=0x7f, name='gen.pkg', types=types, keys=keys, chunks=chunks)])


def templates(seed, n):
    rnd = random.Random(seed * 77 + 3)
    out = curated()
    while len(out) < n:
        out.append(gen_table(rnd))
    return out


# ------------------------------------------------------------------ reference semantics
def dcopy(x):
    if isinstance(x, dict):
        return {k: dcopy(v) for k, v in x.items()}
    if isinstance(x, list):
        return [dcopy(v) for v in x]
    return x


def cfg_tuple(c):
    """identity of a configuration: every field the size covers (AOSP compares all of them incl. script and variant)"""
    size = c.get('size', 64)
    ends = dict(imsi=8, locale=12, screenType=16, input=20, screenSize=24, version=28, screenConfig=32, screenSizeDp=36, screenConfig2=52)
    t = [c.get(f, 0) if size >= ends[f] else 0 for f in CFG_FIELDS]
    t.append(bytes(c.get('localeScript', b'\0' * 4)) if size >= 40 else b'\0' * 4)
    t.append(bytes(c.get('localeVariant', b'\0' * 8)) if size >= 48 else b'\0' * 8)
    return tuple(t)


def rid_of(p, ch, i):
    return (p['id'] << 24) | (ch['type'] << 16) | i


def table_index(T):
    """rid -> [(cfg_tuple, entry, package index)] in chunk order"""
    idx = {}
    for pi, p in enumerate(T['packages']):
        for ch in p['chunks']:
            for i in sorted(ch['entries']):
                idx.setdefault(rid_of(p, ch, i), []).append((cfg_tuple(ch['config']), ch['entries'][i], pi))
    return idx


def lit(T, ty, da):
    if isinstance(ty, int) and ty == 3:
        return T['strings'][da] if isinstance(da, int) and da < len(T['strings']) else ''
    return ('typed', ty, da)


def ref_resolve(T, idx, rid, stack=()):
    """flat list of (cfg_tuple, literal) | (cfg_tuple, [literal | (cfg, literal)...]) exactly as the stored values read"""
    out = []
    if rid in stack:
        return out
    for cfg, e, pi in idx.get(rid, []):
        def item(ty, da, into, complex_):
            if isinstance(ty, int) and ty == 1:
                if da and da != rid:
                    into += ref_resolve(T, idx, da, stack + (rid,))
                return
            into.append(lit(T, ty, da) if complex_ else (cfg, lit(T, ty, da)))
        if e['kind'] == 'complex':
            arr = []
            out.append((cfg, arr))
            for _, (ty, da) in e['items']:
                item(ty, da, arr, True)
        else:
            item(e['value'][0], e['value'][1], out, False)
    return out


def expect(T, rids):
    idx = table_index(T)
    R = dict(packages=[p['name'] for p in T['packages']], locales={}, types={}, resolved={}, configs={}, key2id={}, strings={})
    for p in T['packages']:
        locs = []
        ty = {}
        for ch in p['chunks']:
            l = unloc(cfg_tuple(ch['config'])[1])
            if l not in locs:
                locs.append(l)
            ty.setdefault(l, set())
            if ch['entries']:
                ty[l].add(p['types'][ch['type'] - 1])
            for i, e in sorted(ch['entries'].items()):
                tn = p['types'][ch['type'] - 1]
                R['key2id'][(p['name'], tn, p['keys'][e['key']])] = rid_of(p, ch, i)
                if tn == 'string' and e['kind'] != 'complex':
                    # the first entry of that name in the locale answers; judged only if it holds a string
                    first = R['strings'].setdefault((p['name'], p['keys'][e['key']], l),
                                                    [p['keys'][e['key']], lit(T, 3, e['value'][1])] if isinstance(e['value'][0], int) and e['value'][0] == 3 else None)
        R['locales'][p['name']] = locs
        R['types'][p['name']] = ty
    for rid in rids:
        R['resolved'][rid] = ref_resolve(T, idx, rid)
        R['configs'][rid] = [c for c, _, _ in idx.get(rid, [])]
    return R


def well_formed(T):
    """configurations of one type are distinct, one key per resource id, sparse indices ascending (by construction)"""
    for p in T['packages']:
        seen = {}
        keyof = {}
        for ch in p['chunks']:
            k = (ch['type'], cfg_tuple(ch['config']))
            if k in seen:
                return False
            seen[k] = 1
            tname = p['types'][ch['type'] - 1] if 1 <= ch['type'] <= len(p['types']) else None
            for i, e in ch['entries'].items():
                if keyof.setdefault((ch['type'], i), e['key']) != e['key']:
                    return False
                if e['kind'] == 'complex' and tname in ('string', 'integer', 'color', 'dimen', 'bool', 'id'):
                    return False                 # these resource types never hold bags
        inv = {}
        for (t, i), key in keyof.items():
            if inv.setdefault((t, key), i) != i:
                return False
    return len({p['id'] for p in T['packages']}) == len(T['packages'])


# ------------------------------------------------------------------ observation (inside the explored path)
def obs_cfg(c):
    return tuple(c._get_tuple()) + (bytes_of(getattr(c, 'localeScript', b'\0' * 4), 4), bytes_of(getattr(c, 'localeVariant', b'\0' * 8), 8))


def bytes_of(x, n):
    if isinstance(x, SBytes):
        x = bytes(x)
    return bytes(x) if len(x) == n else bytes(x)


def plain_res(v):
    out = []
    for x in v:
        if isinstance(x, tuple) and len(x) == 2 and hasattr(x[0], '_get_tuple'):
            c, val = x
            out.append((obs_cfg(c), plain_res(val) if isinstance(val, list) else val))
        else:
            out.append(x)
    return out


def observe(axml, items, rids, queries):
    a = axml.ARSCParser(SBytes(items))
    O = dict(packages=a.get_packages_names(), locales={}, types={}, resolved={}, configs={}, key2id={}, strings={})
    for pkg in O['packages']:
        O['locales'][pkg] = a.get_locales(pkg)
        O['types'][pkg] = {l: set(a.get_types(pkg, l)) - {'public'} for l in O['locales'][pkg]}
    for rid in rids:
        O['resolved'][rid] = plain_res(a.get_resolved_res_configs(rid))
        O['configs'][rid] = [obs_cfg(c) for c, _ in a.get_res_configs(rid)]
    for q in queries['key2id']:
        O['key2id'][q] = a.get_res_id_by_key(*q)
    for q in queries['strings']:
        O['strings'][q] = a.get_string(*q)
    return O


# ------------------------------------------------------------------ comparison (python bool where concrete, else z3 term)
def AND(xs):
    out = []
    for x in xs:
        if x is True:
            continue
        if x is False:
            return False
        out.append(x)
    if not out:
        return True
    return z3.And(out) if len(out) > 1 else out[0]


def term(x):
    return z3.BoolVal(x) if isinstance(x, bool) else x


def s_eq(a, b):
    if a is None or b is None:
        return a is None and b is None
    if isinstance(a, str) and isinstance(b, str):
        return a == b
    if isinstance(a, (str, SStr)) and isinstance(b, (str, SStr)):
        return SStr.of(a).eq_term(SStr.of(b))
    return False


def v_eq(obs, exp):
    if isinstance(exp, tuple) and exp and exp[0] == 'typed':
        _, ty, da = exp
        if isinstance(ty, int) and isinstance(da, int):
            return isinstance(obs, str) and ty in c27.T.values() and ty not in (0, 3) and c27.ref_check(ty, da, obs) == []
        return c27.obligation_for(ty, SInt.of(da), obs) if isinstance(ty, int) and ty in TYPES else False
    return s_eq(obs, exp)


def i_eq(a, b):
    if isinstance(a, bool) or isinstance(b, bool):
        return False
    if isinstance(a, int) and isinstance(b, int):
        return a == b
    if isinstance(a, (int, SInt)) and isinstance(b, (int, SInt)):
        return bv(a) == bv(b)
    if isinstance(a, bytes) and isinstance(b, bytes):
        return a == b
    return False


def c_eq(a, b):
    if len(a) != len(b):
        return False
    return AND(i_eq(x, y) for x, y in zip(a, b))


def res_eq(obs, exp):
    if len(obs) != len(exp):
        return False
    c = []
    for o, e in zip(obs, exp):
        o_pair = isinstance(o, tuple) and len(o) == 2 and isinstance(o[0], tuple)
        e_pair = isinstance(e, tuple) and len(e) == 2 and isinstance(e[0], tuple)
        if e_pair != o_pair:
            return False
        if e_pair:
            c.append(c_eq(o[0], e[0]))
            if isinstance(e[1], list):
                c.append(res_eq(o[1], e[1]) if isinstance(o[1], list) else False)
            else:
                c.append(v_eq(o[1], e[1]))
        else:
            c.append(v_eq(o, e))
    return AND(c)


def all_eq(O, R, queries, rids):
    c = {}
    c['package names'] = O['packages'] == R['packages']
    c['locales'] = O['locales'] == R['locales']
    c['types'] = O['types'] == R['types']
    for rid in rids:
        c['resolved 0x%08x' % rid] = res_eq(O['resolved'][rid], R['resolved'][rid])
        c['configurations of 0x%08x' % rid] = AND([len(O['configs'][rid]) == len(R['configs'][rid])] +
                                                  [c_eq(x, y) for x, y in zip(O['configs'][rid], R['configs'][rid])])
    for q in queries['key2id']:
        want = R['key2id'].get(q)
        got = O['key2id'][q]
        c['id of key %s' % (q,)] = (got is None) if want is None else (i_eq(got, want) if got is not None else False)
    for q in queries['strings']:
        want = R['strings'].get(q)
        got = O['strings'][q]
        if want is None:
            continue                      # entries of type `string` holding something else than a string: not judged
        c['string %s' % (q,)] = AND([got is not None and len(got) == 2, s_eq(got[0], want[0]), v_eq(got[1], want[1])]) \
            if got is not None else False
    return c


# ------------------------------------------------------------------ symbolic groups
def setup():
    axml = common.axmlmod()
    from ..sstr import sx_ord
    axml.ord = sx_ord
    return axml


def sym_field(items, name, off, size):
    bs = [fresh_byte('%s_%d' % (name, k)) for k in range(size)]
    items[off:off + size] = bs
    e = z3.Concat(*[z3.Extract(7, 0, bs[k].e) for k in reversed(range(size))]) if size > 1 else z3.Extract(7, 0, bs[0].e)
    return SInt(z3.ZeroExt(W - 8 * size, e), 0, (1 << (8 * size)) - 1)


LOCALES = [0, loc('de'), loc('en-rUS'), loc('fil'), loc('zh-rTW'), loc('es-r419'), loc('ceb'), loc('yue-rHK'), loc('mni')]


def groups_of(T, L):
    out = []
    for pi, p in enumerate(T['packages']):
        out.append(('package %d id' % pi, [('p%d.id' % pi, 'pkgid')]))
        for ci, ch in enumerate(p['chunks']):
            tag = 'p%d.c%d' % (pi, ci)
            out.append(('%s type id' % tag, [(tag + '.type_id', 'typeid')]))
            out.append(('%s locale' % tag, [(tag + '.config.locale', 'locale')]))
            out.append(('%s density / sdk' % tag, [(tag + '.config.screenType', 'density'), (tag + '.config.version', 'sdk')]))
            out.append(('%s free fields' % tag, [(tag + '.reserved', 'free')] + [('%s.e%d.flags' % (tag, i), 'pubweak') for i in ch['entries']] +
                        [('%s.e%d.parent' % (tag, i), 'free') for i, e in ch['entries'].items() if e['kind'] == 'complex']))
            lay = ch.get('layout', 'plain')
            if lay == 'sparse':
                for k in range(len(ch['entries'])):
                    out.append(('%s sparse element %d' % (tag, k), [('%s.sparse%d.idx' % (tag, k), 'sparseidx'), ('%s.sparse%d.off' % (tag, k), 'sparseoff')]))
            else:
                for i in range(ch['count']):
                    out.append(('%s offset %d' % (tag, i), [('%s.off%d' % (tag, i), 'off')]))
            for i, e in sorted(ch['entries'].items()):
                et = '%s.e%d' % (tag, i)
                out.append(('%s key' % et, [(et + '.key', 'key')]))
                if e['kind'] in ('plain', 'compact'):
                    out.append(('%s value' % et, [(et + '.type', 'type'), (et + '.data', 'data')]))
                else:
                    for k in range(len(e['items'])):
                        out.append(('%s item %d' % (et, k), [('%s.i%d.name' % (et, k), 'free'), ('%s.i%d.type' % (et, k), 'type'), ('%s.i%d.data' % (et, k), 'data')]))
    return out


def locate(T, name):
    parts = name.split('.')
    p = T['packages'][int(parts[0][1:])]
    if len(parts) == 2:
        return p, None, None, parts[1:]
    ch = p['chunks'][int(parts[1][1:])]
    if parts[2][0] == 'e' and parts[2][1:].isdigit():
        return p, ch, ch['entries'][int(parts[2][1:])], parts[3:]
    return p, ch, None, parts[2:]


def apply_field(T, name, v, L=None):
    T = dcopy(T)
    p, ch, e, rest = locate(T, name)
    if ch is None:
        p[rest[0]] = v
    elif e is not None:
        if rest[0] == 'key':
            e['key'] = v
        elif rest[0] in ('type', 'data'):
            t, d = e['value']
            e['value'] = (v, d) if rest[0] == 'type' else (t, v)
        elif rest[0][0] == 'i':
            k = int(rest[0][1:])
            nm, (t, d) = e['items'][k]
            e['items'][k] = (nm, (v, d) if rest[1] == 'type' else (t, v) if rest[1] == 'data' else (t, d))
    elif rest[0] == 'type_id':
        ch['type'] = v
    elif rest[0] == 'config':
        ch['config'][rest[1]] = v
    elif rest[0].startswith('off'):
        # offset table slot i now points at the entry stored at byte offset v (or nothing)
        i = int(rest[0][3:])
        lay = [c for c in L.chunks if c['tag'] == '.'.join(name.split('.')[:2])][0]
        by_off = {o: ch['entries'][j] for j, o in lay['eoff'].items()}
        orig = dcopy(by_off)
        ch['entries'].pop(i, None)
        if v in orig:
            ch['entries'][i] = orig[v]
    elif rest[0].startswith('sparse'):
        k = int(rest[0][6:])
        lay = [c for c in L.chunks if c['tag'] == '.'.join(name.split('.')[:2])][0]
        order = sorted(lay['eoff'])                  # element k originally described entry index order[k]
        if '_orig' not in ch:
            ch['_orig'] = {lay['eoff'][i]: dcopy(ch['entries'][i]) for i in order}        # byte offset -> stored entry
            ch['_sparse'] = {j: [i, lay['eoff'][i]] for j, i in enumerate(order)}
        ch['_sparse'][k][0 if rest[1] == 'idx' else 1] = v
        ch['entries'] = {idx_: dcopy(ch['_orig'][o]) for idx_, o in ch['_sparse'].values() if o in ch['_orig']}
    return T


def strip(T):
    for p in T['packages']:
        for ch in p['chunks']:
            ch.pop('_sparse', None)
            ch.pop('_orig', None)
    return T


def domain(kind, T, L, name):
    p, ch, e, rest = locate(T, name)
    if kind == 'pkgid':
        return [1, 2, 0x7e, 0x7f, 0x80, 0xff]
    if kind == 'typeid':
        return list(range(1, len(p['types']) + 1))
    if kind == 'locale':
        return LOCALES
    if kind == 'density':
        return [0, 120 << 16, 240 << 16, 0xFFFE << 16, 1, 3 | (160 << 16)]
    if kind == 'sdk':
        return [0, 4, 21, 34 | (1 << 16)]
    if kind == 'key':
        return list(range(len(p['keys'])))
    tag = '.'.join(name.split('.')[:2])
    lay = [c for c in L.chunks if c['tag'] == tag][0]
    if kind == 'off':
        offs = sorted(lay['eoff'].values())
        if lay['layout'] == 'offset16':
            return [o // 4 for o in offs] + [0xFFFF]
        return offs + [NO_ENTRY]
    if kind == 'sparseoff':
        return [o // 4 for o in sorted(lay['eoff'].values())]
    if kind == 'sparseidx':
        k = int(rest[0][6:])
        order = sorted(lay['eoff'])
        lo = order[k - 1] + 1 if k else 0
        hi = order[k + 1] - 1 if k + 1 < len(order) else 0xFFFF
        cand = sorted({lo, lo + 1, order[k], hi - 1, hi, (lo + hi) // 2} & set(range(lo, hi + 1)))
        return cand
    raise KeyError(kind)


def jsonable(T):
    T = dcopy(T)
    for p in T['packages']:
        for ch in p['chunks']:
            for f in ('localeScript', 'localeVariant'):
                if f in ch['config']:
                    ch['config'][f] = bytes(ch['config'][f]).decode('latin1')
    return T


def all_rids(T):
    return sorted(table_index(T))


def job(jc, spec):
    import os, time
    t0 = time.time()
    try:
        return job_(jc, spec)
    finally:
        if os.environ.get('VERIF_TIMING'):
            sys.stderr.write('TIMING %s %.1fs\n' % (str((spec[0], spec[2]))[:80], time.time() - t0))


def job_(jc, spec):
    ti, T, gi = spec
    axml = setup()
    blob, L = arscw.write(T)
    label, fields = groups_of(T, L)[gi]
    label = 'table %d: %s' % (ti, label)
    items = list(blob)
    pre, S_, idx_fields = [], {}, []
    for fname, fk in fields:
        off, size = L.fields[fname]
        v = sym_field(items, fname.replace('.', '_'), off, size)
        S_[fname] = v
        if fk in ('free', 'type', 'data'):
            continue
        if fk == 'pubweak':
            base_flags = locate(T, fname)[2].get('flags', 0) | (arscw.FLAG_COMPLEX if locate(T, fname)[2]['kind'] == 'complex' else 0) | \
                (arscw.FLAG_COMPACT if locate(T, fname)[2]['kind'] == 'compact' else 0)
            keep = 0xFF & ~(arscw.FLAG_PUBLIC | arscw.FLAG_WEAK) if size == 1 else 0xFFFF & ~(arscw.FLAG_PUBLIC | arscw.FLAG_WEAK)
            pre.append((v.e & keep) == (base_flags & keep))
            continue
        if fk == 'off':
            real_fk = fk
        dom = domain(fk, T, L, fname)
        if fk in ('off', 'sparseoff') and False:
            pass
        pre.append(z3.Or([v.e == d for d in dom]))
        idx_fields.append((fname, fk, dom))
    tv = [f for f, k in fields if k == 'type']
    nstr = len(T['strings'])
    base_rids = all_rids(T)
    ref_targets = sorted(set(base_rids) | {0, 0x7f7f0001})
    if tv:
        base = tv[0][:-5]
        ty, da = S_[base + '.type'], S_[base + '.data']
        pre.append(z3.Or([ty.e == t for t in TYPES] + [ty.e == 3, ty.e == 1]))
        pre.append(z3.Implies(ty.e == 5, (da.e & 0xf) < 6))
        pre.append(z3.Implies(ty.e == 6, (da.e & 0xf) < 2))
        pre.append(z3.Implies(ty.e == 3, da.e < nstr))
        pre.append(z3.Implies(ty.e == 1, z3.Or([da.e == r for r in ref_targets])))
    # every combination of the index-like fields gives one candidate table; ids to query = union over the candidates
    combos = []
    for combo in itertools.product(*[dom for _, _, dom in idx_fields]):
        T2 = T
        for (fname, fk, _), v in zip(idx_fields, combo):
            vv = v
            if fk == 'off' and v not in (NO_ENTRY, 0xFFFF):
                vv = v * 4 if [c for c in L.chunks if c['tag'] == '.'.join(fname.split('.')[:2])][0]['layout'] == 'offset16' else v
            elif fk == 'off':
                vv = NO_ENTRY
            if fk == 'sparseoff':
                vv = v * 4
            T2 = apply_field(T2, fname, vv, L)
        T2 = strip(T2)
        if not well_formed(T2):
            continue
        cond = z3.And([S_[fname].e == v for (fname, _, _), v in zip(idx_fields, combo)] + [z3.BoolVal(True)])
        combos.append((cond, T2))
    rids = sorted(set(r for _, T2 in combos for r in all_rids(T2)) | {0x7f7f0001})
    queries = dict(key2id=sorted({q for _, T2 in combos for q in expect(T2, [])['key2id']} | {(T['packages'][0]['name'], 'string', 'nokey')}),
                   strings=sorted({q for _, T2 in combos for q in expect(T2, [])['strings']}))
    if idx_fields:
        pre.append(z3.Or([c for c, _ in combos] + [z3.BoolVal(False)]))        # only the well-formed candidates
    eng = jc.new_engine(pre=pre)

    def ext(m):
        return dict(table=jsonable(T), group=gi, fields={f: mval(m, v) for f, v in S_.items()}, blob=mbytes(m, items).hex())
    # expected answers of every candidate table (one per combination of index-like fields x value alternative)
    cases = []
    for cond, T2 in combos:
        if tv:
            alts = []
            for t in TYPES:
                alts.append((ty.e == t, apply_field(apply_field(T2, base + '.type', t), base + '.data', da)))
            for i in range(nstr):
                alts.append((z3.And(ty.e == 3, da.e == i), apply_field(apply_field(T2, base + '.type', 3), base + '.data', i)))
            for rt in ref_targets:
                alts.append((z3.And(ty.e == 1, da.e == rt), apply_field(apply_field(T2, base + '.type', 1), base + '.data', rt)))
        else:
            alts = [(z3.BoolVal(True), T2)]
        for c2, T3 in alts:
            cases.append((z3.simplify(z3.And(cond, c2)), expect(T3, rids)))
    for pc, (k, r) in eng.explore(lambda: observe(axml, items, rids, queries), keep_pcs=True):
        jc.reached('explored')
        if k == 'exc':
            jc.obligation(eng, pc, z3.BoolVal(False), ext, label=label, what='parser raised %r' % (r,))
            continue
        obs = {}
        for cond, R in cases:
            for name, t_ in all_eq(r, R, queries, rids).items():
                if t_ is not True:
                    obs.setdefault(name, []).append(z3.Implies(cond, term(t_)))
        jc.obligations(eng, pc, {k_: z3.And(v_) for k_, v_ in obs.items()} or {'all answers': z3.BoolVal(True)}, ext, label=label,
                       what='%s differs from the table')
    eng.partition_guard()
    jc.sample(dict(case=label, symbolic=[f for f, _ in fields], candidate_tables=len(combos), paths=eng.st.paths), limit=8)


def run(ctx):
    setup()
    ctx.functions_encoded = FUNCS
    n = 6 if not ctx.thorough else 20
    tabs = templates(ctx.seed, n)
    rnd = random.Random(ctx.seed)
    jobs = []
    for ti, T in enumerate(tabs):
        blob, L = arscw.write(T)
        gs = groups_of(T, L)
        pick = list(range(len(gs)))
        if not ctx.thorough and len(pick) > 16:
            rnd.shuffle(pick)
            pick = sorted(pick[:16])
        jobs += [(ti, T, gi) for gi in pick]
    ctx.bounds = dict(tables=len(tabs), groups=len(jobs), per_table='<= 2 packages, <= 4 types, <= 6 type chunks, <= 4 entries per chunk',
                      symbolic_per_run='one group: entry value (12 literal types x 2^32 data words, strings by index, references to every '
                      'entry / a missing id / null), complex item, key index, offset-table slot (plain, 16 bit, sparse idx/off), '
                      'package id, type id, locale / density / sdk of a configuration over small domains, public / weak flag bits and '
                      'reserved fields free')
    ctx.stubs = ['SymStruct / SymIO', 'format markers for rendered numbers (C27 oracle)']
    ctx.assumptions = ['well-formed tables: distinct configurations per type, one key per resource, ascending sparse indices, '
                       'offsets pointing at stored entries', 'get_types is compared without the pseudo type "public"',
                       'get_string is judged for entries whose value is a string', 'null / self / missing references resolve to nothing']
    ctx.outside_claim = ['several groups at once', 'tables beyond the templates', 'FLAG_WEAK replication hack', 'library chunks', 'overlayable chunks',
                         'the get_*_resources XML renderings']
    ctx.diff_unhooked(sys.modules[__name__], [dict(table=jsonable(t)) for t in tabs[:4]])
    ctx.pmap(job, jobs)


def _observe_real(blob, rids, queries):
    from androguard.core import axml
    a = axml.ARSCParser(blob)
    O = dict(packages=a.get_packages_names(), locales={}, types={}, resolved={}, configs={}, key2id={}, strings={})
    for pkg in O['packages']:
        O['locales'][pkg] = a.get_locales(pkg)
        O['types'][pkg] = {l: set(a.get_types(pkg, l)) - {'public'} for l in O['locales'][pkg]}
    for rid in rids:
        O['resolved'][rid] = plain_res(a.get_resolved_res_configs(rid))
        O['configs'][rid] = [obs_cfg(c) for c, _ in a.get_res_configs(rid)]
    for q in queries['key2id']:
        O['key2id'][q] = a.get_res_id_by_key(*q)
    for q in queries['strings']:
        O['strings'][q] = a.get_string(*q)
    return O


def unjson(T):
    for p in T['packages']:
        for ch in p['chunks']:
            ch['entries'] = {int(k): v for k, v in ch['entries'].items()}
            for e in ch['entries'].values():
                if 'value' in e:
                    e['value'] = tuple(e['value'])
                if 'items' in e:
                    e['items'] = [(n, tuple(v)) for n, v in e['items']]
            for f in ('localeScript', 'localeVariant'):
                if isinstance(ch['config'].get(f), str):
                    ch['config'][f] = ch['config'][f].encode('latin1')
    return T


def concrete(c):
    T = unjson(dcopy(c['table']))
    blob, L = arscw.write(T)
    rids = all_rids(T)
    R = expect(T, rids)
    O = _observe_real(blob, rids, dict(key2id=sorted(R['key2id']), strings=sorted(R['strings'])))
    O['types'] = {p: {l: sorted(t) for l, t in d.items()} for p, d in O['types'].items()}
    return repr(sorted((k, repr(v)) for k, v in O.items()))


def replay(w):
    T = unjson(dcopy(w['table']))
    blob0, L = arscw.write(T)
    fields = groups_of(T, L)[w['group']][1]
    T2 = T
    for fname, fk in fields:
        v = w['fields'][fname]
        if fk in ('free', 'pubweak'):
            continue
        lay = [c for c in L.chunks if c['tag'] == '.'.join(fname.split('.')[:2])]
        if fk == 'off':
            v = NO_ENTRY if v in (NO_ENTRY, 0xFFFF) else (v * 4 if lay[0]['layout'] == 'offset16' else v)
        if fk == 'sparseoff':
            v *= 4
        T2 = apply_field(T2, fname, v, L)
    T2 = strip(T2)
    rids = sorted(set(all_rids(T2)) | set(all_rids(T)) | {0x7f7f0001})
    R = expect(T2, rids)
    queries = dict(key2id=sorted(R['key2id']), strings=sorted(R['strings']))
    try:
        O = _observe_real(bytes.fromhex(w['blob']), rids, queries)
    except Exception as e:
        return True, 'parser raised %r' % (e,)
    bad = [k for k, t in all_eq(O, R, queries, rids).items() if not z3.is_true(z3.simplify(term(t)))]
    detail = []
    for k in bad[:3]:
        if k.startswith('resolved'):
            rid = int(k.split()[1], 16)
            detail.append('%s: got %r, table holds %r' % (k, O['resolved'][rid], R['resolved'][rid]))
        elif k.startswith('configurations'):
            rid = int(k.split()[-1], 16)
            detail.append('%s: got %r, table holds %r' % (k, O['configs'][rid], R['configs'][rid]))
        else:
            detail.append(k)
    return bool(bad), '; '.join(detail)
