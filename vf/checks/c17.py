"""C17 renaming: bounded histories of set_name on methods / fields / classes (plus reloads) on a skeleton DEX in which
the name_idx words of two method ids are symbolic - whether two items share a name string is the solver's choice -
compared after every step with a dictionary model of current names."""
import sys
import itertools
import z3
from ..engine import *
from .. import common, hook, dexasm
from ..dexasm import Cls, Mth, Fld, Code

FUNCS = ['androguard.core.dex.ClassManager.set_hook_class_name/set_hook_method_name/set_hook_field_name/set_hook_string/'
         'get_string', 'EncodedMethod.set_name/reload/get_name', 'EncodedField.set_name/reload/get_name',
         'ClassDefItem.set_name/reload/get_name', 'MethodIdItem.reload', 'FieldIdItem.reload', 'MethodHIdItem.reload',
         'Instruction21c.get_output/get_raw_string', 'DEX.__init__ (full parse)']

ITEMS = ['m:A.foo', 'm:A.bar', 'm:B.baz', 'f:A.x', 'f:B.y', 'c:A', 'c:B']
ORIG = {'m:A.foo': 'foo', 'm:A.bar': 'bar', 'm:B.baz': 'baz', 'f:A.x': 'x', 'f:B.y': 'y', 'c:A': 'LA;', 'c:B': 'LB;'}
LIT = 'lit'


def skeleton():
    def code(P):
        return [0x001a, P.string(LIT), 0x000e]
    rv = lambda P: [0x000e]

    def extra(P):
        P.string('zeta')
    A = Cls('LA;', sfields=[Fld('x', 'I', 9)], dmethods=[Mth('foo', 'V', (), 9, Code(1, 0, 0, code)), Mth('bar', 'V', (), 9, Code(0, 0, 0, rv))])
    B = Cls('LB;', sfields=[Fld('y', 'I', 9)], dmethods=[Mth('baz', 'V', (), 9, Code(0, 0, 0, rv))])
    return dexasm.assemble([A, B], extra=extra)


def find(d):
    out = {}
    for m in d.get_encoded_methods():
        out['m:%s' % m.get_method_idx()] = m
    for c in d.get_classes():
        out['c:%s' % c.get_class_idx()] = c
        for f in c.get_fields():
            out['f:%s' % f.get_field_idx()] = f
    return out


def keys(P):
    """item label -> lookup key by pool index (names may be symbolic, indices are not)"""
    return {'m:A.foo': 'm:%d' % P.m_idx[('LA;', 'foo', 'V', ())], 'm:A.bar': 'm:%d' % P.m_idx[('LA;', 'bar', 'V', ())],
            'm:B.baz': 'm:%d' % P.m_idx[('LB;', 'baz', 'V', ())], 'f:A.x': 'f:%d' % P.f_idx[('LA;', 'x', 'I')],
            'f:B.y': 'f:%d' % P.f_idx[('LB;', 'y', 'I')], 'c:A': 'c:%d' % P.t_idx['LA;'], 'c:B': 'c:%d' % P.t_idx['LB;']}


OPS = [('rename', 'm:A.foo'), ('rename', 'm:A.bar'), ('rename', 'm:B.baz'), ('rename', 'f:A.x'), ('rename', 'c:B'),
       ('rename', 'c:A'), ('reload', 'm:B.baz'), ('reload', 'f:B.y')]


def apply_history(d, K, hist, real_names):
    """runs a history on the real objects; returns the list of per-step mismatches against the dictionary model"""
    objs = find(d)
    model = dict(real_names)
    bad = []
    m0 = [x for x in d.get_encoded_methods() if x.get_method_idx() == int(K['m:A.foo'][2:])][0]

    def const_string():
        ins = list(m0.get_instructions())[0]
        return ins.get_output().split(', ', 1)[-1], ins.get_raw_string()
    lit0 = const_string()
    for step, h in enumerate(hist):
        op, item = h[0], h[1]
        how = h[2] if len(h) > 2 else 'fresh'
        o = objs[K[item]]
        if op == 'rename':
            # a fresh name, or back to the name the item has in the file
            new = real_names[item] if how == 'orig' else ('LR%d;' if item.startswith('c:') else 'r%d') % step
            o.set_name(new)
            model[item] = new
        else:
            o.reload()
        for it in ITEMS:
            got = objs[K[it]].get_name()
            if got != model[it]:
                bad.append('after step %d (%s %s): %s reports %r, model %r' % (step, op, item, it, got, model[it]))
        cs = const_string()
        if cs != lit0:
            bad.append('after step %d (%s %s): const-string shows %r, was %r' % (step, op, item, cs, lit0))
    return bad


def job(jc, spec):
    hist_len, first = spec[0], spec[1]
    restricted = len(spec) > 2
    dex = common.dexmod()
    blob, P, L = skeleton()
    hook.ZL.value = int.from_bytes(blob[8:12], 'little')
    K = keys(P)
    mi = L.sections['method_ids']
    ia, ib = P.m_idx[('LA;', 'bar', 'V', ())], P.m_idx[('LB;', 'baz', 'V', ())]
    NA, NB, NF = fresh_uint('name_idx_A_bar', 32), fresh_uint('name_idx_B_baz', 32), fresh_uint('name_idx_B_y', 32)
    names_ok = [i for i, s in enumerate(P.s_list) if s.isidentifier()]
    items = list(blob)
    items[mi + 8 * ia + 4: mi + 8 * ia + 8] = le_bytes(NA, 4)
    items[mi + 8 * ib + 4: mi + 8 * ib + 8] = le_bytes(NB, 4)
    fi = L.sections['field_ids']
    iy = P.f_idx[('LB;', 'y', 'I')]
    items[fi + 8 * iy + 4: fi + 8 * iy + 8] = le_bytes(NF, 4)
    pre = [z3.Or([NA.e == i for i in names_ok]), z3.Or([NB.e == i for i in names_ok]),
           z3.Or(NF.e == P.s_idx['y'], NF.e == P.s_idx['x'])]
    eng = jc.new_engine(pre=pre)
    sidx = {'m:A.foo': z3.BitVecVal(P.s_idx['foo'], W), 'm:A.bar': NA.e, 'm:B.baz': NB.e,
            'f:A.x': z3.BitVecVal(P.s_idx['x'], W), 'f:B.y': NF.e,
            'c:A': z3.BitVecVal(P.s_idx['LA;'], W), 'c:B': z3.BitVecVal(P.s_idx['LB;'], W), 'lit': z3.BitVecVal(P.s_idx[LIT], W)}
    label = 'histories of %d steps starting with %s %s' % (hist_len, *OPS[first])

    RENAME_CLS = [i for i, o in enumerate(OPS) if o[0] == 'rename' and o[1].startswith('c:')]
    RELOADS = [i for i, o in enumerate(OPS) if o[0] == 'reload']

    def go():
        if restricted:       # rename <first>, rename a class, reload an item
            seq = [first, RENAME_CLS[engine().choose(len(RENAME_CLS))], RELOADS[engine().choose(len(RELOADS))]]
        else:
            seq = [first] + [engine().choose(len(OPS)) for _ in range(hist_len - 1)]
        hist = []
        for k in seq:
            op, item = OPS[k]
            # a rename gives a fresh name, or (once the item has been renamed) the name it has in the file again
            again = op == 'rename' and any(h[0] == 'rename' and h[1] == item for h in hist)
            hist.append((op, item, 'orig' if again and engine().choose(2) else 'fresh'))
        d = dex.DEX(SBytes(items))
        objs = find(d)
        real = {it: objs[K[it]].get_name() for it in ITEMS}
        return hist, real, apply_history(d, K, hist, real)

    def ext(m, hist=None):
        return dict(name_idx_A_bar=mval(m, NA), name_idx_B_baz=mval(m, NB), name_idx_B_y=mval(m, NF), history=[list(h) for h in hist])
    for pc, (kind, r) in eng.explore(go, keep_pcs=True):
        jc.reached('explored')
        if kind == 'exc':
            jc.obligation(eng, pc, z3.BoolVal(False), lambda m: ext(m, [OPS[first] + ('fresh',)]), label=label, what='raised %r' % (r,))
            continue
        hist, real, bad = r
        renamed = [h[1] for h in hist if h[0] == 'rename']
        shared = z3.Or([sidx[x] == sidx[y] for x in renamed for y in sidx if y != x] + [z3.BoolVal(False)])
        # the recorded finding concerns methods, classes and const-string operands that share the renamed pool string;
        # fields keep their names on the recorded tree, so a field reporting a wrong name is judged outside the region
        bad_f = [b for b in bad if ': f:' in b]
        bad_o = [b for b in bad if ': f:' not in b]
        jc.obligation(eng, pc, z3.BoolVal(not bad_o), lambda m, hist=hist: ext(m, hist), {'c17_shared_string_idx': shared},
                      label=label, what=bad_o[0] if bad_o else '')
        if bad_f:
            jc.obligation(eng, pc, z3.BoolVal(False), lambda m, hist=hist: ext(m, hist), label=label + ' (field names)', what=bad_f[0])
    eng.partition_guard()
    jc.sample(dict(case=label, paths=eng.st.paths))


def run(ctx):
    common.dexmod()
    ctx.functions_encoded = FUNCS
    L = 3 if ctx.thorough else 2
    ctx.bounds = dict(history_length='<= %d operations, every sequence over %d operations (renames of 3 methods, 1 field, 2 classes; '
                                     'reloads of a method and a field)' % (L, len(OPS)),
                      sharing='name_idx of LA;->bar and LB;->baz each symbolic over the %d identifier strings of the pool; name_idx of '
                              'field LB;->y symbolic over {y, x}' % 7,
                      new_names='fresh, or (for an item renamed before) the name it has in the file',
                      quick_extra='3-step histories rename <item>, rename <class>, reload <item>',
                      items=ITEMS + ['const-string operand'])
    ctx.stubs = ['SymStruct / SymIO for the whole DEX parse', 'adler32 stub', 'NullLogger']
    ctx.assumptions = ['dictionary model: an item reports the last name given to it, otherwise its original name']
    ctx.outside_claim = ['histories longer than %d; more than two symbolic name indices' % L, 'python export attributes (vm.CLASS_*)']
    cases = [dict(a=None, b=None, history=[['rename', 'm:A.foo'], ['rename', 'c:B']]),
             dict(a='foo', b='foo', history=[['rename', 'm:A.foo'], ['rename', 'c:B'], ['reload', 'm:B.baz']]),
             dict(a=None, b=None, history=[['rename', 'f:A.x'], ['reload', 'f:B.y']])]
    ctx.diff_unhooked(sys.modules[__name__], cases)
    jobs = [(l, f) for l in range(1, L + 1) for f in range(len(OPS))]
    if not ctx.thorough:
        jobs += [(3, f, 'rename-class-reload') for f in range(len(OPS)) if OPS[f][0] == 'rename']
    ctx.pmap(job, jobs)


def _concrete(a, b, history, fy=None):
    from androguard.core import dex
    blob, P, L = skeleton()
    K = keys(P)
    mi = L.sections['method_ids']
    bb = bytearray(blob)
    for name, key in ((a, ('LA;', 'bar', 'V', ())), (b, ('LB;', 'baz', 'V', ()))):
        if name is not None:
            idx = name if isinstance(name, int) else P.s_idx[name]
            bb[mi + 8 * P.m_idx[key] + 4: mi + 8 * P.m_idx[key] + 8] = idx.to_bytes(4, 'little')
    if fy is not None:
        fi = L.sections['field_ids']
        iy = P.f_idx[('LB;', 'y', 'I')]
        bb[fi + 8 * iy + 4: fi + 8 * iy + 8] = int(fy).to_bytes(4, 'little')
    blob2 = dexasm.fix_checksum(bytes(bb))
    if hasattr(dex.zlib, 'calls'):
        dex.zlib.value = int.from_bytes(blob2[8:12], 'little')
    d = dex.DEX(blob2)
    objs = find(d)
    real = {it: objs[K[it]].get_name() for it in ITEMS}
    return apply_history(d, K, [tuple(h) for h in history], real)


def concrete(c):
    return _concrete(c['a'], c['b'], c['history'])


def replay(w):
    try:
        bad = _concrete(w['name_idx_A_bar'], w['name_idx_B_baz'], w['history'], w.get('name_idx_B_y'))
    except Exception as e:
        return True, 'history %r raised %r' % (w['history'], e)
    return bool(bad), 'name indices bar=%d baz=%d, history %s: %s' % (
        w['name_idx_A_bar'], w['name_idx_B_baz'], w['history'], '; '.join(bad[:2]))
