"""C22 determinism of the decompiler output.  Hash-seed and memory-layout dependence can only enter through the iteration
order of sets (and set.pop); every set of androguard.decompiler.* is replaced by vf.orderset.OrderSet and the order used at
each order-consuming site becomes an input chosen by the engine: every single site is driven through every permutation
(sets of up to 4 elements; reversal and rotation beyond), in the thorough tier also every pair of sites.  All runs must
print the same source.  A second dimension is the history of the process: each method is decompiled after the others in
two different orders.

Honest note (DESIGN C22): the engine only enumerates the order choices here; no solver query decides anything."""
import io
import itertools
import os
import sys
import zipfile
from ..engine import *
from .. import hook
from ..orderset import OrderSet, PLAN

FUNCS = ['androguard.decompiler.decompile.DvMethod.process / get_source', 'DvClass.get_source (thorough)', 'graph.construct / simplify / split_if_nodes / dom_lt / compute_rpo',
         'dataflow.build_def_use / split_variables / dead_code_elimination / register_propagation / place_declarations',
         'control_flow.identify_structures (intervals, loops, ifs, switches, short circuits, catch)', 'node.Interval / Node.update_attribute_with',
         'writer.Writer', 'basic_blocks', 'instruction.*.get_used_vars']
DATA = 'tests/data/APK'
QUICK_SOURCES = [('TestActivity.apk', 'Ltests/androguard/'), ('TestActivity.apk', 'Landroid/support/v4/view/ViewPager;'),
                 ('TestActivity.apk', 'Landroid/support/v4/content/LocalBroadcastManager;'),
                 ('TestActivity.apk', 'Landroid/support/v4/view/PagerTitleStrip;')]
SOURCES = [('TestActivity.apk', ''), ('Test.dex', ''), ('ExceptionHandling.dex', ''), ('FillArrays.dex', ''),
           ('AnalysisTest.dex', ''), ('InterfaceCls.dex', ''), ('FieldsTest.dex', ''), ('StringTests.dex', '')]
MODS = ['graph', 'dataflow', 'control_flow', 'node', 'basic_blocks', 'writer', 'instruction', 'decompile', 'util', 'opcode_ins', 'dast']


def load(shadow=True):
    if shadow:
        hook.install(sets=True)
        hook.SET_FACTORY[0] = OrderSet
    import importlib
    mods = {}
    for m in MODS:
        mods[m] = importlib.import_module('androguard.decompiler.' + m)
        if shadow:
            mods[m].set = OrderSet
        if hasattr(mods[m], 'logger'):
            mods[m].logger = NullLogger()
    return mods


def dex_bytes(repo, name):
    path = os.path.join(repo, DATA, name)
    raw = open(path, 'rb').read()
    if name.endswith('.apk'):
        return zipfile.ZipFile(io.BytesIO(raw)).read('classes.dex')
    return raw


_CACHE = {}


def corpus(repo, name, prefix):
    """(dex, analysis, [(class name, method name, descriptor, EncodedMethod)]) of one file"""
    key = (repo, name)
    if key not in _CACHE:
        from androguard.core import dex as dexmod
        from androguard.core.analysis import analysis
        dexmod.logger = NullLogger()
        analysis.logger = NullLogger()
        d = dexmod.DEX(dex_bytes(repo, name))
        dx = analysis.Analysis(d)
        dx.create_xref()
        _CACHE[key] = (d, dx)
    d, dx = _CACHE[key]
    ms = []
    for c in d.get_classes():
        if not c.get_name().startswith(prefix):
            continue
        for m in c.get_methods():
            if m.get_code():
                ms.append((c.get_name(), m.get_name(), m.get_descriptor(), m))
    return d, dx, ms


def decomp(mods, dx, m):
    dv = mods['decompile'].DvMethod(dx.get_method(m))
    dv.process()
    return dv.get_source()


def perms(sz):
    if sz <= 4:
        return [p for p in itertools.permutations(range(sz)) if list(p) != list(range(sz))]
    return [tuple(reversed(range(sz))), tuple(range(1, sz)) + (0,), (1, 0) + tuple(range(2, sz)), tuple(range(sz - 2)) + (sz - 1, sz - 2)]


def job(jc, spec):
    name, prefix, lo, hi, pairs = spec
    mods = load()
    repo = os.environ.get('VERIF_REPO', '/repo')
    d, dx, ms = corpus(repo, name, prefix)
    eng = jc.new_engine(max_paths=10 ** 8)
    nruns = 0
    base_of = {}
    for (cn, mn, desc, m) in ms[lo:hi]:
        label = '%s %s->%s%s' % (name, cn, mn, desc)
        PLAN.reset()
        try:
            base = decomp(mods, dx, m)
        except Exception as e:
            base = 'EXC %s' % type(e).__name__
        base_of[(cn, mn, desc)] = base
        sizes = list(PLAN.sizes)
        # history first: the same call once more, nothing perturbed.  A method whose text already changes here is reported
        # as history-dependent and not permuted (every permuted run would differ for the same reason)
        PLAN.reset()
        try:
            again = decomp(mods, dx, m)
        except Exception as e:
            again = 'EXC %s' % type(e).__name__
        eng.st.obligations += 1
        if again != base:
            jc.concrete_violation(dict(file=name, cls=cn, method=mn, desc=desc, orders={}, history=True), label=label,
                                  what='source differs when the method is decompiled a second time in the same process')
            base_of[(cn, mn, desc)] = None
            continue
        eng.st.discharged += 1
        if not sizes:
            jc.reached('methods without an order-consuming site')
            continue
        jc.reached('methods')
        sites = [(i,) for i in range(len(sizes))]
        if pairs and len(sizes) <= 10:
            sites += list(itertools.combinations(range(len(sizes)), 2))

        def go():
            st = sites[eng.choose(len(sites))]
            chosen = {}
            for s_ in st:
                ps = perms(sizes[s_])
                chosen[s_] = ps[eng.choose(len(ps))]
            PLAN.reset(lambda k, n: chosen.get(k) if k in chosen and n == sizes[k] else None)
            try:
                out = decomp(mods, dx, m)
            except Exception as e:
                out = 'EXC %s' % type(e).__name__
            return out, {str(k): list(v) for k, v in chosen.items()}
        for pc, (kind, r) in eng.explore(go):
            nruns += 1
            eng.st.obligations += 1
            if kind == 'exc':
                jc.concrete_violation(dict(file=name, cls=cn, method=mn, desc=desc, orders=None, note=repr(r)), label=label, what='harness: %r' % (r,))
                continue
            out, chosen = r
            if out != base:
                jc.concrete_violation(dict(file=name, cls=cn, method=mn, desc=desc, orders=chosen), label=label,
                                      what='source differs when the set order at site(s) %s changes' % sorted(chosen))
            else:
                eng.st.discharged += 1
    # history: the same methods again, in reverse order, in this process (which has decompiled the others meanwhile)
    PLAN.reset()
    for (cn, mn, desc, m) in reversed(ms[lo:hi]):
        PLAN.reset()
        try:
            again = decomp(mods, dx, m)
        except Exception as e:
            again = 'EXC %s' % type(e).__name__
        eng.st.obligations += 1
        if base_of[(cn, mn, desc)] is None:
            continue
        if again != base_of[(cn, mn, desc)]:
            jc.concrete_violation(dict(file=name, cls=cn, method=mn, desc=desc, orders={}, history=True), label='%s %s->%s' % (name, cn, mn),
                                  what='source differs when the method is decompiled again after other methods')
        else:
            eng.st.discharged += 1
    jc.sample(dict(file=name, methods=[lo, hi], perturbed_decompilations=nruns), limit=6)


def run(ctx):
    mods = load()
    ctx.functions_encoded = FUNCS
    repo = os.environ.get('VERIF_REPO', '/repo')
    srcs = QUICK_SOURCES if not ctx.thorough else SOURCES
    jobs = []
    total = 0
    for name, prefix in srcs:
        try:
            d, dx, ms = corpus(repo, name, prefix)
        except Exception as e:
            raise Inconclusive('cannot load %s: %r' % (name, e))
        total += len(ms)
        step = 4
        for lo in range(0, len(ms), step):
            jobs.append((name, prefix, lo, min(lo + step, len(ms)), ctx.thorough and name != 'TestActivity.apk'))
    if ctx.thorough:      # pairs of sites for the test package of TestActivity.apk (the whole file is covered site by site)
        d, dx, ms = corpus(repo, 'TestActivity.apk', 'Ltests/androguard/')
        for lo in range(0, len(ms), 4):
            jobs.append(('TestActivity.apk', 'Ltests/androguard/', lo, min(lo + 4, len(ms)), True))
    ctx.bounds = dict(files=sorted({s[0] for s in srcs}), classes=[s[1] or '(all)' for s in srcs], methods=total,
                      orders='every single order-consuming site (set iteration / pop with >= 2 elements whose hash is seed or layout '
                      'dependent) through all permutations up to 4 elements, 4 fixed permutations beyond' +
                      ('; every pair of sites for methods with <= 10 sites (test package of TestActivity.apk and the other files)' if ctx.thorough else ''),
                      history='each method decompiled a second time at once, and a third time after the other methods of its group (in reverse order)')
    ctx.stubs = ['every set of androguard.decompiler.* is an OrderSet (name shadowing + AST rewrite of set displays / comprehensions)',
                 'sets whose elements all hash deterministically (ints, tuples of ints) keep the real CPython order']
    ctx.assumptions = ['set iteration order (and set.pop) is the only channel for hash-seed / layout dependence; dict order is insertion order',
                       'HONEST NOTE: pure enumeration of order choices through the executor, no solver query']
    ctx.outside_claim = ['three or more sites reordered at once', 'methods outside the shipped test files', 'nondeterminism inside C extensions']
    ctx.level_note = 'enumeration through the symbolic executor'
    bad = ctx.diff_unhooked(sys.modules[__name__], [dict(file='TestActivity.apk', prefix='Ltests/androguard/TestIfs;'),
                                                    dict(file='TestActivity.apk', prefix='Ltests/androguard/TestLoops;')], collect=True)
    # two runs of the decompiler (this process with ordered sets, a fresh process with real sets) print different source:
    # either the hook is wrong or the output depends on set order / layout - the replay (fresh processes with different
    # hash seeds and layouts) decides; a method that does not vary there is reported as a harness error as usual
    for c, mine, theirs in bad:
        for k in sorted(set(mine) | set(theirs)):
            if mine.get(k) != theirs.get(k):
                cn, rest = k.split('->', 1)
                mn, desc = rest[:rest.index('(')], rest[rest.index('('):]
                ctx.concrete_violation(dict(file=c['file'], cls=cn, method=mn, desc=desc, orders={}, differential=True),
                                       label='%s %s' % (c['file'], k), what='two runs of the decompiler print different source for this method')
    ctx.pmap(job, jobs)


def concrete(c):
    """plain decompilation (no perturbation) through the current process's modules: hooked+OrderSet vs unhooked+real sets"""
    shadow = 'vf.hook' in sys.modules and hook._installed[0]
    mods = load(shadow=shadow)
    repo = os.environ.get('VERIF_REPO', '/repo')
    d, dx, ms = corpus(repo, c['file'], c['prefix'])
    out = {}
    for cn, mn, desc, m in ms:
        PLAN.reset()
        try:
            out['%s->%s%s' % (cn, mn, desc)] = decomp(mods, dx, m)
        except Exception as e:
            out['%s->%s%s' % (cn, mn, desc)] = 'EXC %s' % type(e).__name__
    return out


SEED_SCRIPT = r'''
import sys, io, os, zipfile, random
random.seed(int(os.environ.get('LAYOUT', '0')))
junk = [object() for _ in range(random.randrange(0, 5000))]        # perturbs the allocation layout
sys.path.insert(0, os.environ['VF_REPO'])
from loguru import logger
logger.remove()
from androguard.core import dex
from androguard.core.analysis import analysis
from androguard.decompiler import decompile
name, cn, mn, desc = sys.argv[1:5]
raw = open(os.path.join(os.environ['VF_REPO'], 'tests/data/APK', name), 'rb').read()
if name.endswith('.apk'):
    raw = zipfile.ZipFile(io.BytesIO(raw)).read('classes.dex')
d = dex.DEX(raw)
dx = analysis.Analysis(d)
dx.create_xref()
for c in d.get_classes():
    if c.get_name() != cn:
        continue
    for m in c.get_methods():
        if m.get_name() == mn and m.get_descriptor() == desc:
            dv = decompile.DvMethod(dx.get_method(m))
            dv.process()
            sys.stdout.write(dv.get_source())
'''


def replay(w):
    import subprocess
    import hashlib
    if w.get('orders') is None:
        return False, w.get('note')
    repo = os.environ.get('VERIF_REPO', '/repo')
    # (1) the property as stated: fresh processes with different hash seeds and allocation layouts
    outs = {}
    for seed in range(16):
        env = dict(os.environ, PYTHONHASHSEED=str(seed), LAYOUT=str(seed), VF_REPO=repo)
        p = subprocess.run([sys.executable, '-c', SEED_SCRIPT, w['file'], w['cls'], w['method'], w['desc']], env=env,
                           capture_output=True, text=True, timeout=600)
        outs.setdefault(hashlib.sha1((p.stdout + ('ERR' if p.returncode else '')).encode()).hexdigest()[:10], []).append(seed)
    if len(outs) > 1:
        return True, '%s %s->%s%s: %d different sources over 16 fresh processes (PYTHONHASHSEED / layout): %r' % (
            w['file'], w['cls'], w['method'], w['desc'], len(outs), outs)
    # (2) the real modules with only the name `set` rebound, under the order the witness names
    mods = load(shadow=False)
    for m in mods.values():
        m.set = OrderSet
    try:
        d, dx, ms = corpus(repo, w['file'], '')
        m = [x for x in ms if (x[0], x[1], x[2]) == (w['cls'], w['method'], w['desc'])][0][3]
        PLAN.reset()
        base = decomp(mods, dx, m)
        sizes = list(PLAN.sizes)
        # (2a) history: the same call again, and again after other methods, nothing perturbed
        PLAN.reset()
        again = decomp(mods, dx, m)
        if again == base:
            others = [decomp(mods, dx, x[3]) for x in ms[:8]]
            PLAN.reset()
            again = decomp(mods, dx, m)
        if again != base:
            import difflib
            diff = '\n'.join(list(difflib.unified_diff(base.splitlines(), again.splitlines(), lineterm='', n=0))[:12])
            return True, ('%s %s->%s%s: the real decompiler prints different source for the same method depending on what this '
                          'process decompiled before (first call vs a later call, same set orders):\n%s' % (
                              w['file'], w['cls'], w['method'], w['desc'], diff))
        chosen = {int(k): tuple(v) for k, v in w['orders'].items()}
        PLAN.reset(lambda k, n: chosen.get(k) if k in chosen and k < len(sizes) and n == sizes[k] else None)
        out = decomp(mods, dx, m)
    finally:
        for mm in mods.values():
            if getattr(mm, 'set', None) is OrderSet:
                del mm.set
    if out != base:
        import difflib
        diff = '\n'.join(list(difflib.unified_diff(base.splitlines(), out.splitlines(), lineterm='', n=0))[:12])
        return True, ('%s %s->%s%s: the real decompiler prints different source when the sets at site(s) %s iterate in another order '
                      '(not hit by 16 sampled hash seeds; any order is legal for these elements):\n%s' % (
                          w['file'], w['cls'], w['method'], w['desc'], sorted(chosen), diff))
    return False, 'same source under the witness order'
