"""C18: see vf/graphs.py (enumeration of all small digraphs through the real Graph algorithms)."""
from .. import graphs


def run(ctx):
    graphs.run(ctx, 'C18')


concrete = graphs.concrete
replay = graphs.replay
