"""C07 map-list order: (O1) the load order table is a strict total order consistent with the dependencies (finite z3
query over the real table); (O2/O3) the map entries of skeleton DEX files are selected through a symbolic permutation -
every permutation of a 6-entry file, every transposition and rotation of a 12-entry file - and the parsed classes,
strings and code must equal those of the original order."""
import sys
import struct
import z3
from ..engine import *
from .. import common, hook, dexasm, dexref
from ..dexasm import Cls, Mth, Fld, Code
from . import c05

FUNCS = ['androguard.core.dex.MapList.__init__', 'MapItem.__init__/parse', 'androguard.core.dex.dex_types.TypeMapItem.'
         'determine_load_order/_get_dependencies', 'ClassManager.add_type_item', 'DEX._load']


def small():
    return dexasm.assemble([Cls('LA;', access=1)])


def snap(d):
    obs = dexref.observe(d)
    for c in obs:
        for k in ('dmethods', 'vmethods'):
            c[k] = [tuple(m[:4]) + (None if m[4] is None else (m[4]['registers'], m[4]['ins'], m[4]['outs'], bytes(m[4]['insns']).hex()),) for m in c[k]]
    return repr(obs), list(d.get_strings())


def permuted_items(blob, L, sigma_terms):
    """items where map slot j holds entry sigma_j (bytes are ite chains over the selector terms)"""
    items = list(blob)
    base = L.map_entries_off
    k = len(L.map_entries)
    ent = [blob[base + 12 * i: base + 12 * (i + 1)] for i in range(k)]
    for j, s in enumerate(sigma_terms):
        for b in range(12):
            e = z3.BitVecVal(ent[0][b], W)
            for i in range(1, k):
                e = z3.If(s == i, z3.BitVecVal(ent[i][b], W), e)
            e = z3.simplify(e)
            items[base + 12 * j + b] = e.as_long() if z3.is_bv_value(e) else SInt(e, 0, 255)
    return items


def job(jc, spec):
    kind = spec[0]
    dex = common.dexmod()
    blob, P, L = small() if kind == 'all' else c05.skeleton()
    hook.ZL.value = int.from_bytes(blob[8:12], 'little')
    k = len(L.map_entries)
    d0 = dex.DEX(blob)
    want = snap(d0)
    if kind == 'all':
        sig = [fresh_uint('s%d' % j, 8) for j in range(k)]
        pre = [s.e < k for s in sig] + [z3.Distinct(*[s.e for s in sig])]
        terms = [s.e for s in sig]
        label = 'all %d! permutations of a %d-entry map' % (k, k)
    elif kind == 'swap':
        p, q = fresh_uint('p', 8), fresh_uint('q', 8)
        pre = [p.e < q.e, q.e < k]
        terms = [z3.If(p.e == j, q.e, z3.If(q.e == j, p.e, z3.BitVecVal(j, W))) for j in range(k)]
        label = 'every transposition of a %d-entry map' % k
    else:
        r = fresh_uint('r', 8)
        pre = [r.e < k]
        terms = [z3.If(r.e + j >= k, r.e + j - k, r.e + j) for j in range(k)]
        label = 'every rotation (and its reverse) of a %d-entry map' % k
        if spec[1] == 'rev':
            terms = terms[::-1]
            label += ' reversed'
    items = permuted_items(blob, L, terms)
    eng = jc.new_engine(pre=pre)

    def go():
        d = dex.DEX(SBytes(items))
        return snap(d)

    def ext(m):
        order = [m.eval(t, model_completion=True).as_long() for t in terms]
        return dict(skeleton='small' if kind == 'all' else 'c05', order=order)
    for pc, (kd, r) in eng.explore(go, keep_pcs=True):
        jc.reached(kind)
        if kd == 'exc':
            jc.obligation(eng, pc, z3.BoolVal(False), ext, label=label, what='parse of the permuted file raised %r' % (r,))
            continue
        jc.obligation(eng, pc, z3.BoolVal(r == want), ext, label=label, what='parsed model differs from the original order')
    eng.partition_guard()
    jc.sample(dict(case=label, map_entries=[hex(t) for t, n, o in L.map_entries], paths=eng.st.paths))


def run(ctx):
    dex = common.dexmod()
    from androguard.core.dex.dex_types import TypeMapItem
    ctx.functions_encoded = FUNCS
    ctx.bounds = dict(O1='the whole TypeMapItem table', O3=['all 720 permutations of a 6-entry map', 'all 66 transpositions, '
                      '12 rotations and 12 reversed rotations of a 12-entry map'])
    ctx.stubs = ['SymStruct / SymIO', 'adler32 stub (the property fixes the checksum)', 'NullLogger']
    ctx.assumptions = ['map entries keep their (type, size, offset) triples; only their order in the map list changes']
    ctx.outside_claim = ['all 12! orders of the larger file (covered through O1 + the pairwise orders)', 'files with more sections '
                         '(annotations, debug info, hidden api)']
    # ---- O1: strict total order consistent with the dependencies
    order = TypeMapItem.determine_load_order()
    deps = TypeMapItem._get_dependencies()
    members = list(TypeMapItem)
    s = z3.Solver()
    rank = {t: z3.Int('rank_%s' % t.name) for t in members if t in order}
    for t, v in order.items():
        s.add(rank[t] == v)
    viol = [z3.Not(z3.Distinct(*rank.values()))]
    for t, ds in deps.items():
        for dpd in ds:
            if t in rank and dpd in rank:
                viol.append(z3.Not(rank[dpd] < rank[t]))
    s.add(z3.Or(viol + [z3.BoolVal(len(rank) != len(members))]))
    r = s.check()
    ctx.stats.queries += 1
    ctx.stats.obligations += 1
    if str(r) == 'unsat':
        ctx.stats.unsat += 1
        ctx.stats.discharged += 1
    else:
        ctx.stats.sat += 1
        ctx.concrete_violation(dict(skeleton='order-table', order=[]), label='O1', what='load order is not a strict total order '
                               'consistent with the declared dependencies')
    ctx.info['load_order'] = {t.name: v for t, v in order.items()}
    blob, P, L = c05.skeleton()
    ctx.diff_unhooked(sys.modules[__name__], [dict(skeleton='c05', order=list(range(len(L.map_entries)))[::-1]),
                                              dict(skeleton='small', order=[5, 4, 3, 2, 1, 0])])
    ctx.expect_reach(['all', 'swap', 'rot'])
    ctx.pmap(job, [('all',), ('swap',), ('rot', 'fwd'), ('rot', 'rev')])


def _parse_order(w):
    from androguard.core import dex
    blob, P, L = small() if w['skeleton'] == 'small' else c05.skeleton()
    b = bytearray(blob)
    base = L.map_entries_off
    ent = [blob[base + 12 * i: base + 12 * (i + 1)] for i in range(len(L.map_entries))]
    for j, i in enumerate(w['order']):
        b[base + 12 * j: base + 12 * (j + 1)] = ent[i]
    b = dexasm.fix_checksum(bytes(b))
    if hasattr(dex.zlib, 'calls'):
        dex.zlib.value = int.from_bytes(b[8:12], 'little')
    d0 = dex.DEX(dexasm.fix_checksum(blob)) if not hasattr(dex.zlib, 'calls') else None
    return snap(dex.DEX(b)), blob


def concrete(c):
    return list(_parse_order(c)[0])


def replay(w):
    from androguard.core import dex
    if w['skeleton'] == 'order-table':
        from androguard.core.dex.dex_types import TypeMapItem
        order = TypeMapItem.determine_load_order()
        deps = TypeMapItem._get_dependencies()
        bad = len(set(order.values())) != len(order) or any(order[d] >= order[t] for t, ds in deps.items() for d in ds)
        return bad, 'load order %r' % {t.name: v for t, v in order.items()}
    blob, P, L = small() if w['skeleton'] == 'small' else c05.skeleton()
    want = snap(dex.DEX(blob))
    try:
        got, _ = _parse_order(w)
    except Exception as e:
        return True, 'map order %r: parse raised %r' % (w['order'], e)
    return got != want, 'map order %r: parsed model differs from the original order' % (w['order'],)
