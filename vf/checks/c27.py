"""C27 resource value formatting: format_value / complexToFloat / get_resource_dimen / get_resource_color /
ARSCResStringPoolRef.format_value for all 2^32 data words per value type, vs the AOSP definitions."""
import re
import struct
import sys
import z3
from ..engine import *
from ..sfmt import parse_markers, SFloat, RNE, D, F32, render
from .. import common

FUNCS = ['androguard.core.axml.format_value', 'complexToFloat', 'RADIX_MULTS', 'DIMENSION_UNITS', 'FRACTION_UNITS',
         'ARSCParser.get_resource_dimen', 'ARSCParser.get_resource_color', 'ARSCResStringPoolRef.__init__',
         'ARSCResStringPoolRef.format_value']

# AOSP ResourceTypes.h / TypedValue.java
T = dict(NULL=0x00, REFERENCE=0x01, ATTRIBUTE=0x02, STRING=0x03, FLOAT=0x04, DIMENSION=0x05, FRACTION=0x06,
         INT_DEC=0x10, INT_HEX=0x11, INT_BOOLEAN=0x12, COLOR_ARGB8=0x1c, COLOR_RGB8=0x1d, COLOR_ARGB4=0x1e,
         COLOR_RGB4=0x1f)
DIM_UNITS = ["px", "dip", "sp", "pt", "in", "mm"]
FRAC_UNITS = ["%", "%p"]
RADIX_SHIFT = [8, 15, 23, 31]           # mantissa (already << 8) times 2^-shift


def s32(v):
    return v - (1 << 32) if v >> 31 else v


def ref_complex(data):
    return float(s32(data & 0xFFFFFF00)) * 2.0 ** -RADIX_SHIFT[(data >> 4) & 3]


def ref_check(ty, data, got):
    """concrete oracle; returns list of discrepancies of the string `got`"""
    if not isinstance(got, str):
        return ['result is %r, not a string' % (got,)]
    if ty == T['DIMENSION']:
        exp = '%f%s' % (ref_complex(data), DIM_UNITS[data & 0xf])
        return [] if got == exp else ['%r != AOSP %r' % (got, exp)]
    if ty == T['FRACTION']:
        exp = '%f%s' % (ref_complex(data) * 100, FRAC_UNITS[data & 0xf])
        return [] if got == exp else ['%r != AOSP %r' % (got, exp)]
    if ty == T['FLOAT']:
        exp = '%f' % struct.unpack('<f', struct.pack('<I', data))[0]
        return [] if got == exp else ['%r != %r' % (got, exp)]
    if ty == T['INT_DEC']:
        return [] if got == '%d' % s32(data) else ['%r != %d' % (got, s32(data))]
    if ty == T['INT_HEX']:
        m = re.fullmatch(r'0x([0-9A-Fa-f]+)', got)
        return [] if m and int(m.group(1), 16) == data else ['%r is not hex of 0x%x' % (got, data)]
    if ty == T['INT_BOOLEAN']:
        return [] if got == ('false' if data == 0 else 'true') else ['%r for boolean data %d' % (got, data)]
    if ty in (T['REFERENCE'], T['ATTRIBUTE']):
        m = re.fullmatch(r'([@?])(android:)?([0-9A-Fa-f]{8})', got)
        ok = m and m.group(1) == ('@' if ty == T['REFERENCE'] else '?') and int(m.group(3), 16) == data and \
            bool(m.group(2)) == (data >> 24 == 1)
        return [] if ok else ['%r is not the reference form of 0x%08x' % (got, data)]
    if ty in (T['COLOR_ARGB8'], T['COLOR_RGB8'], T['COLOR_ARGB4'], T['COLOR_RGB4']):
        m = re.fullmatch(r'#([0-9A-Fa-f]+)', got)
        return [] if m and int(m.group(1), 16) == data else ['%r is not colour 0x%08x' % (got, data)]
    raise KeyError(ty)


def fp_same(a, b):
    return z3.And(z3.fpIsNaN(a) == z3.fpIsNaN(b),
                  z3.Or(z3.fpIsNaN(a), z3.And(z3.fpEQ(a, b), z3.fpIsNegative(a) == z3.fpIsNegative(b))))


def fp_shape(t):
    """decompose  fpMul(..fpMul(fpSignedToFP(bv), c1).., ck)  into (bv sign-extended to W bits, [c1..ck]) or None"""
    consts = []
    t = z3.simplify(t) if False else t
    while z3.is_app(t) and t.decl().kind() == z3.Z3_OP_FPA_MUL:
        a, b = t.arg(1), t.arg(2)
        if z3.is_fp_value(z3.simplify(b)):
            consts.append(z3.simplify(b))
            t = a
        elif z3.is_fp_value(z3.simplify(a)):
            consts.append(z3.simplify(a))
            t = b
        else:
            return None
    if z3.is_app(t) and t.decl().kind() == z3.Z3_OP_FPA_TO_FP and t.num_args() == 2 and z3.is_bv(t.arg(1)):
        x = t.arg(1)
        return z3.SignExt(W - x.size(), x), consts[::-1]
    return None


def fp_match(impl, ref):
    """equality of two float terms: argument-wise (BV query) when both have the same product shape - sound because
    equal arguments give equal IEEE results - and the full floating-point query otherwise"""
    a, b = fp_shape(impl), fp_shape(ref)
    if a and b and len(a[1]) == len(b[1]) and all(z3.is_true(z3.simplify(x == y)) or
                                                    z3.is_true(z3.simplify(z3.fpEQ(x, y))) for x, y in zip(a[1], b[1])):
        return a[0] == b[0]
    return fp_same(impl, ref)


def z_complex_path(d32, radix):
    mant = z3.fpSignedToFP(RNE, d32 & z3.BitVecVal(0xFFFFFF00, 32), D)
    return z3.fpMul(RNE, mant, z3.FPVal(2.0 ** -RADIX_SHIFT[radix], D))


def z_complex(d32):
    """AOSP complex_to_float as an exact Float64 term of the 32-bit data word"""
    mant = z3.fpSignedToFP(RNE, d32 & z3.BitVecVal(0xFFFFFF00, 32), D)
    e = None
    for k, sh in enumerate(RADIX_SHIFT):
        v = z3.fpMul(RNE, mant, z3.FPVal(2.0 ** -sh, D))
        e = v if e is None else z3.If(z3.Extract(5, 4, d32) == k, v, e)
    return e


def shape(parts, *kinds):
    return len(parts) == len(kinds) and all(p[0] == k for p, k in zip(parts, kinds))


def obligation_for(ty, DATA, val):
    """z3 term: the marker string `val` is the AOSP rendering of (ty, DATA)"""
    d32 = z3.Extract(31, 0, DATA.e)
    if not isinstance(val, str):
        return z3.BoolVal(False)
    parts = parse_markers(val)
    F = z3.BoolVal(False)
    if ty in (T['DIMENSION'], T['FRACTION']):
        units = DIM_UNITS if ty == T['DIMENSION'] else FRAC_UNITS
        if not (shape(parts, 'sym', 'lit') and parts[0][3] == 'float' and parts[0][2] == 'f'):
            return F
        unit_ok = z3.Or([z3.And((DATA.e & 0xF) == i, z3.BoolVal(parts[1][1] == u)) for i, u in enumerate(units)])
        alts = []
        for k in range(4):      # per radix: the radix is pinned on each path, three alternatives fold to false
            exp = z_complex_path(d32, k)
            if ty == T['FRACTION']:
                exp = z3.fpMul(RNE, exp, z3.FPVal(100.0, D))
            alts.append(z3.And(z3.Extract(5, 4, d32) == k, fp_match(parts[0][1], exp)))
        return z3.And(z3.Or(alts), unit_ok)
    if ty == T['FLOAT']:
        if not (shape(parts, 'sym') and parts[0][3] == 'float' and parts[0][2] == '%f'):
            return F
        return fp_same(parts[0][1], z3.fpToFP(RNE, z3.fpBVToFP(d32, F32), D))
    if ty == T['INT_DEC']:
        if not (shape(parts, 'sym') and parts[0][3] == 'int' and parts[0][2] == '%d'):
            return F
        return parts[0][1] == z3.SignExt(W - 32, d32)
    if ty == T['INT_HEX']:
        if not (shape(parts, 'lit', 'sym') and parts[0][1] == '0x' and parts[1][2] in ('%08X', '%08x', '%X', '%x')):
            return F
        return parts[1][1] == DATA.e
    if ty == T['INT_BOOLEAN']:
        return z3.If(DATA.e == 0, z3.BoolVal(val == 'false'), z3.BoolVal(val == 'true'))
    if ty in (T['REFERENCE'], T['ATTRIBUTE']):
        if not (shape(parts, 'lit', 'sym') and parts[1][2] in ('08X', '08x')):
            return F
        sig = '@' if ty == T['REFERENCE'] else '?'
        return z3.And(z3.If((DATA.e >> 24) == 1, z3.BoolVal(parts[0][1] == sig + 'android:'),
                            z3.BoolVal(parts[0][1] == sig)), parts[1][1] == DATA.e)
    if ty in (T['COLOR_ARGB8'], T['COLOR_RGB8'], T['COLOR_ARGB4'], T['COLOR_RGB4']):
        if not (shape(parts, 'lit', 'sym') and parts[0][1] == '#' and parts[1][2] in ('%08X', '%08x', '%X', '%x')):
            return F
        return parts[1][1] == DATA.e
    raise KeyError(ty)


class _Pool:
    def getString(self, i): return '<string>'


class _Parent:
    stringpool_main = _Pool()


class Key:
    def __init__(self, d): self.d = d
    def get_data(self): return self.d


class Ate:
    def __init__(self, d): self.key = Key(d)
    def get_value(self): return 'name'


def run(ctx):
    axml = common.axmlmod()
    ctx.functions_encoded = FUNCS
    ctx.bounds = dict(types=sorted(T.values()), data='all 2^32 words per type')
    ctx.stubs = ['SymStruct for struct.pack/unpack (incl. IEEE float32 reinterpretation as z3 Float32)',
                 'format markers for %d/%x/%f renderings; z3 Float64 (RNE) for float arithmetic']
    ctx.assumptions = ['unit nibble within the legal table (dimension < 6, fraction < 2); other nibbles outside domain',
                       'fraction reference is complex_to_float * 100 in double precision',
                       "colour / hex forms: '#' or '0x' followed by hex digits of the 32-bit word (case/padding free)",
                       "'%f' renderings are compared as IEEE values (equal doubles print equal); replay compares text"]
    ctx.outside_claim = ['TYPE_STRING / TYPE_NULL and type codes outside the AOSP table', 'illegal unit nibbles']
    DATA = fresh_uint('data', 32)
    names = {v: k for k, v in T.items()}

    # Serval-style validation on boundary words
    import random
    rnd = random.Random(ctx.seed)
    words = [0, 1, 0x100, 0x1001, 0x7fffff11, 0x80000000, 0xffffff01, 0xffffffff, 0x01010001, 0x3f800000,
             0x7fc00000, 0x80000011, 0xfff00021, 0x00000131] + [rnd.getrandbits(32) for _ in range(30)]
    cases = [[ty, w] for ty in sorted(T.values()) if ty not in (0, 3) for w in words
             if not (ty == 5 and (w & 0xf) > 5) and not (ty == 6 and (w & 0xf) > 1)]
    ctx.diff_unhooked(sys.modules[__name__], cases)

    def ext(ty, what):
        return lambda m: dict(fn=what, type=ty, data=mval(m, DATA) & 0xFFFFFFFF)

    def guarded(gen):
        try:
            for x in gen:
                yield x
        except Inconclusive as e:
            pending.append(str(e))
    sign_region = {'c27_signed_mantissa': (DATA.e >> 31) == 1}
    pending = []          # reasons why a part of the run was inconclusive (the run ends with exit 3 unless a violation was found)
    for ty in sorted(T.values()):
        if ty in (T['NULL'], T['STRING']):
            continue
        label = names[ty]
        pre = []
        if ty == T['DIMENSION']:
            pre = [(DATA.e & 0xF) < len(DIM_UNITS)]
        if ty == T['FRACTION']:
            pre = [(DATA.e & 0xF) < len(FRAC_UNITS)]
        eng = ctx.new_engine(pre=pre)
        try:
            for pc, (kind, val) in eng.explore(lambda: axml.format_value(ty, DATA), keep_pcs=True):
                ctx.reached(label)
                if kind == 'exc':
                    ctx.obligation(eng, pc, z3.BoolVal(False), ext(ty, 'format_value'), label=label,
                                   what='format_value raised %r' % val)
                    continue
                ctx.obligation(eng, pc, obligation_for(ty, DATA, val), ext(ty, 'format_value'), sign_region, label=label,
                               what='formatted %s value differs from the AOSP meaning' % label)
                ctx.sample(dict(type=label, marker_string=[p[:1] + (p[2:] if p[0] == 'sym' else p[1:]) for p in parse_markers(val)]))
            eng.partition_guard()
        except Inconclusive as e:
            # the code did something with the symbolic value that is not modelled: nothing can be proved for this type on this
            # tree.  Concrete data words are tried instead - a mismatch among them is still a (replayed) violation; without
            # one the run stays inconclusive (exit 3), never "held".
            found = 0
            for w in words + [rnd.getrandbits(32) for _ in range(3000)]:
                if (ty == 5 and (w & 0xf) > 5) or (ty == 6 and (w & 0xf) > 1):
                    continue
                try:
                    got = axml.format_value(ty, w)
                    bad = ref_check(ty, w, got)
                except Exception as e2:
                    bad = ['raised %r' % (e2,)]
                if bad and not (w >> 31 and 'c27_signed_mantissa' in ctx.known):
                    ctx.concrete_violation(dict(fn='format_value', type=ty, data=w), label=label + ' (concrete data words)', what=bad[0])
                    found += 1
                    if found >= 3:
                        break
            if not found:
                pending.append(str(e))
    # --- Res_value parsed from 8 symbolic bytes, then formatted (ARSCResStringPoolRef)
    hdr = [fresh_byte('rv%d' % i) for i in range(4)]
    word = le_bytes(DATA, 4)
    for ty in (T['INT_DEC'], T['DIMENSION'], T['REFERENCE']):
        label = 'Res_value:' + names[ty]
        pre = [hdr[3].e == ty] + ([(DATA.e & 0xF) < 6] if ty == T['DIMENSION'] else [])
        eng = ctx.new_engine(pre=pre)

        def go():
            f = axml.io.BytesIO(SBytes(hdr + word))
            rv = axml.ARSCResStringPoolRef(f, _Parent())
            return rv.format_value(), rv.get_data(), rv.get_data_type(), f.tell()
        for pc, (kind, val) in guarded(eng.explore(go, keep_pcs=True)):
            ctx.reached(label)
            if kind == 'exc':
                ctx.obligation(eng, pc, z3.BoolVal(False), ext(ty, 'Res_value'), label=label, what='raised %r' % val)
                continue
            s, d, t, pos = val
            ob = z3.And(obligation_for(ty, DATA, s), bv(d) == DATA.e, bv(t) == ty, bv(pos) == 8)
            ctx.obligation(eng, pc, ob, ext(ty, 'Res_value'), sign_region, label=label,
                           what='Res_value decoding/formatting differs')
        eng.partition_guard()

    # --- ARSCParser.get_resource_dimen / get_resource_color on a stub table entry
    P = axml.ARSCParser.__new__(axml.ARSCParser)
    eng = ctx.new_engine(pre=[(DATA.e & 0xF) < 6])
    for pc, (kind, val) in guarded(eng.explore(lambda: P.get_resource_dimen(Ate(DATA)), keep_pcs=True)):
        ctx.reached('get_resource_dimen')
        ok = z3.BoolVal(False)
        if kind == 'ok' and isinstance(val, list) and len(val) == 2 and isinstance(val[1], str):
            parts = parse_markers(val[1])
            if shape(parts, 'sym', 'lit') and parts[0][3] == 'float' and parts[0][2] == '':
                unit_ok = z3.Or([z3.And((DATA.e & 0xF) == i, z3.BoolVal(parts[1][1] == u)) for i, u in enumerate(DIM_UNITS)])
                d32 = z3.Extract(31, 0, DATA.e)
                ok = z3.And(z3.Or([z3.And(z3.Extract(5, 4, d32) == k, fp_match(parts[0][1], z_complex_path(d32, k)))
                                   for k in range(4)]), unit_ok)
        ctx.obligation(eng, pc, ok, ext(5, 'get_resource_dimen'), sign_region, label='get_resource_dimen',
                       what='dimension resource differs from the AOSP meaning')
    eng.partition_guard()
    eng = ctx.new_engine()
    for pc, (kind, val) in guarded(eng.explore(lambda: P.get_resource_color(Ate(DATA)), keep_pcs=True)):
        ctx.reached('get_resource_color')
        ok = z3.BoolVal(False)
        if kind == 'ok' and isinstance(val, list) and len(val) == 2 and isinstance(val[1], str):
            parts = parse_markers(val[1])
            if shape(parts, 'lit', 'sym', 'sym', 'sym', 'sym') and parts[0][1] == '#' and \
                    all(p[2] in ('02x', '02X') for p in parts[1:]):
                ok = z3.And([parts[1 + i][1] == ((DATA.e >> (24 - 8 * i)) & 0xFF) for i in range(4)])
        ctx.obligation(eng, pc, ok, ext(0x1c, 'get_resource_color'), label='get_resource_color',
                       what='colour resource is not #AARRGGBB of the data word')
    if not pending:
        eng.partition_guard()
    if pending and not getattr(ctx, 'new_violations', 0):
        raise Inconclusive(pending[0])


def concrete(c):
    from androguard.core import axml
    return axml.format_value(c[0], c[1])


def replay(w):
    from androguard.core import axml
    ty, data = w['type'], w['data']
    try:
        if w['fn'] == 'format_value':
            got = axml.format_value(ty, data)
        elif w['fn'] == 'Res_value':
            import io
            rv = axml.ARSCResStringPoolRef(io.BytesIO(struct.pack('<HBBI', 8, 0, ty, data)), _Parent())
            got = rv.format_value()
        elif w['fn'] == 'get_resource_dimen':
            P = axml.ARSCParser.__new__(axml.ARSCParser)
            got = P.get_resource_dimen(Ate(data))[1]
            exp = '%s%s' % (ref_complex(data), DIM_UNITS[data & 0xf])
            return got != exp, 'get_resource_dimen(0x%08x) = %r, AOSP meaning %r' % (data, got, exp)
        else:
            P = axml.ARSCParser.__new__(axml.ARSCParser)
            got = P.get_resource_color(Ate(data))[1]
            ty = 0x1c
    except Exception as e:
        return True, 'type 0x%02x data 0x%08x raised %r' % (ty, data, e)
    bad = ref_check(ty, data, got)
    return bool(bad), 'type 0x%02x data 0x%08x: %s' % (ty, data, '; '.join(bad))
