"""C20 def-use chains: the real build_def_use / reach_def_analysis / BasicReachDef on real Graph objects with mock
statement nodes; statement kinds, registers, edges and parameters are free inputs enumerated through the executor; the
oracle is an independent path-based reaching-definitions computation.

Honest note (DESIGN C20): as for C18, every path fixes the whole program, so this is exhaustive enumeration within the
bound, not a solver proof."""
import itertools
import sys
from ..engine import *
from .. import hook

FUNCS = ['androguard.decompiler.dataflow.build_def_use', 'reach_def_analysis', 'BasicReachDef.__init__/run', 'DummyNode',
         'androguard.decompiler.graph.Graph.add_node/add_edge/remove_node/all_preds/all_sucs/compute_rpo']
REGS = ('r0', 'r1')
# statement kinds: (lhs, uses)
KINDS = [(l, u) for l in (None, 'r0', 'r1') for u in ((), ('r0',), ('r1',), ('r0', 'r1'))]


class Ins:
    def __init__(self, lhs, uses):
        self.lhs, self.uses = lhs, list(uses)

    def get_lhs(self):
        return self.lhs

    def get_used_vars(self):
        return list(self.uses)


def mods():
    hook.install()
    from androguard.decompiler import dataflow, graph, node
    dataflow.logger = NullLogger()
    graph.logger = NullLogger()
    return dataflow, graph, node


def make_graph(graph, node, shape, kinds, edges, exit_last, cedges=()):
    """shape: statements per node; kinds: flat list of KINDS indices; edges: set of (i, j); cedges: catch edges (i, j)"""
    class N(node.Node):
        def __init__(self, name, lins):
            super().__init__(name)
            self.lins = lins
            self.in_catch = False
            self.catch_type = None

        def set_catch_type(self, t):
            self.catch_type = t

        def get_loc_with_ins(self):
            return list(self.lins)

        def __repr__(self):
            return self.name
    nodes = []
    loc = 0
    k = 0
    for i, cnt in enumerate(shape):
        lins = []
        for _ in range(cnt):
            lhs, uses = KINDS[kinds[k]]
            k += 1
            lins.append((loc, Ins(lhs, uses)))
            loc += 1
        nodes.append(N('n%d' % i, lins))
    g = graph.Graph()
    for x in nodes:
        g.add_node(x)
    g.entry = nodes[0]
    for (i, j) in sorted(edges):
        g.add_edge(nodes[i], nodes[j])
    for (i, j) in sorted(cedges):
        g.add_catch_edge(nodes[i], nodes[j])
    g.exit = nodes[-1] if exit_last else None
    return g, nodes


def reachable(nodes, edges):
    seen, todo = {0}, [0]
    while todo:
        x = todo.pop()
        for (a, b) in edges:
            if a == x and b not in seen:
                seen.add(b)
                todo.append(b)
    return len(seen) == len(nodes)


def reference(nodes, edges, params):
    """path based: definition (var, dloc) reaches use (var, uloc) iff some path carries it there without redefinition"""
    n = len(nodes)
    succ = {i: [b for (a, b) in edges if a == i] for i in range(n)}
    stm = {i: nodes[i].lins for i in range(n)}
    defs = []          # (var, loc, node index or -1, position)
    for k, p in enumerate(params, 1):
        defs.append((p, -k, -1, -1))
    for i in range(n):
        for pos, (loc, ins) in enumerate(stm[i]):
            if ins.lhs is not None:
                defs.append((ins.lhs, loc, i, pos))
    defined = {d[0] for d in defs}

    def kills(i, var, lo, hi):
        return any(stm[i][p][1].lhs == var for p in range(lo, hi))
    UD = {}
    for i in range(n):
        for q, (uloc, ins) in enumerate(stm[i]):
            for var in ins.uses:
                if var not in defined:
                    continue
                reach = set()
                for (dv, dloc, di, dpos) in defs:
                    if dv != var:
                        continue
                    if di == i and dpos < q and not kills(i, var, dpos + 1, q):
                        reach.add(dloc)
                        continue
                    # leaves its node alive?
                    if di >= 0 and kills(di, var, dpos + 1, len(stm[di])):
                        continue
                    starts = [0] if di == -1 else succ[di]
                    # search over nodes: arrive at node i with the definition alive at its entry
                    seen = set()
                    todo = list(starts)
                    hit = False
                    while todo:
                        x = todo.pop()
                        if x in seen:
                            continue
                        seen.add(x)
                        if x == i and not kills(i, var, 0, q):
                            hit = True
                            break
                        if kills(x, var, 0, len(stm[x])):
                            continue
                        todo += succ[x]
                    if hit:
                        reach.add(dloc)
                UD[(var, uloc)] = reach
    return UD


def job(jc, spec):
    shape, first, nparams, exit_last = spec[:4]
    catch = len(spec) > 4 and spec[4] == 'catch'
    dataflow, graph, node = mods()
    eng = jc.new_engine(max_paths=10 ** 8)
    n = len(shape)
    nst = sum(shape)
    label = 'shape %s params %d' % (list(shape), nparams)

    def go():
        kinds = list(first) + [eng.choose(len(KINDS)) for _ in range(nst - len(first))]
        edges = set()
        cedges = set()
        for i in range(n):
            for j in range(n):
                if catch and i == j:
                    continue            # the catch family has no self-loops
                if eng.choose(2):
                    edges.add((i, j))
        if catch:
            # exactly one catch edge, between any two different nodes that have no normal edge
            free = [(i, j) for i in range(n) for j in range(n) if i != j and (i, j) not in edges]
            if not free:
                return None
            cedges.add(free[eng.choose(len(free))])
        g, nodes = make_graph(graph, node, shape, kinds, edges, exit_last, cedges)
        if not reachable(nodes, edges | cedges):
            return None
        g.compute_rpo()
        params = list(REGS[:nparams])
        UD, DU = dataflow.build_def_use(g, params)
        ref = reference(nodes, edges | cedges, params)
        bad = []
        got = {k: set(v) for k, v in UD.items()}
        for k in set(ref) | set(got):
            if got.get(k, set()) != ref.get(k, set()):
                bad.append('use %r: linked definitions %s, reaching definitions %s' % (k, sorted(got.get(k, set())), sorted(ref.get(k, set()))))
        inv = {}
        for (var, uloc), ds in got.items():
            for d in ds:
                inv.setdefault((var, d), set()).add(uloc)
        if {k: set(v) for k, v in DU.items()} != inv:
            bad.append('DU is not the inverse of UD')
        if any(len(v) != len(set(v)) for v in UD.values()):
            pass        # duplicate entries in a chain are tolerated (compared as sets)
        return bad, kinds, sorted(edges), sorted(cedges)
    count = 0
    for pc, (kind, r) in eng.explore(go):
        if kind == 'exc':
            jc.concrete_violation(dict(shape=list(shape), kinds=None, note=repr(r)), label=label, what='raised %r' % (r,))
            continue
        if r is None:
            continue
        count += 1
        jc.reached('explored')
        bad, kinds, edges, cedges = r
        eng.st.obligations += 1
        if bad:
            jc.concrete_violation(dict(shape=list(shape), kinds=kinds, edges=[list(e) for e in edges], params=nparams, exit_last=exit_last,
                                       catch_edges=[list(e) for e in cedges]),
                                  label=label, what=bad[0])
        else:
            eng.st.discharged += 1
    if first == (0,) * len(first):
        jc.sample(dict(case=label, first_statements=[KINDS[k] for k in first], programs=count))


def run(ctx):
    mods()
    ctx.functions_encoded = FUNCS
    jobs = []
    shapes = [((2, 2), 2), ((1, 1, 1), 1)] + ([((2, 1, 1), 2), ((1, 2, 1), 2)] if ctx.thorough else [])
    for shape, nf in shapes:
        for first in itertools.product(range(len(KINDS)), repeat=nf):
            for nparams in (0, 1):
                jobs.append((shape, first, nparams, nparams == 1))
    for first in itertools.product(range(len(KINDS)), repeat=1):
        for nparams in (0, 1):
            jobs.append(((1, 1, 1), first, nparams, nparams == 1, 'catch'))
    ctx.bounds = dict(programs=['2 nodes x 2 statements', '3 nodes x 1 statement'] + (['3 nodes with 2/1/1 and 1/2/1 statements'] if ctx.thorough else []),
                      statement='each statement: defines none / r0 / r1 and uses any subset of {r0, r1}', registers=2,
                      edges='every edge set (self-loops included) that keeps all nodes reachable', params='0 or 1 parameter (r0)',
                      catch_edges='3 nodes x 1 statement: every set of normal edges without self-loops plus exactly one catch edge')
    ctx.stubs = ['real Graph / Node / DummyNode; statements are plain objects with get_lhs / get_used_vars']
    ctx.assumptions = ['chains are compared as sets', 'a catch edge carries the definitions that are live at the end of its source node '
                       '(what the analysis documents; an exception thrown before the statement took effect is not modelled)', 'uses of a register that has no definition at all are skipped (as the code documents)']
    ctx.outside_claim = ['larger programs; several catch edges at once; the decompiler passes that consume the chains',
                         'no solver query is involved: free inputs fork by enumeration']
    ctx.diff_unhooked(sys.modules[__name__], [dict(shape=[2, 2], kinds=[4, 1, 8, 3], edges=[[0, 1], [1, 0]], params=1, exit_last=True),
                                              dict(shape=[1, 1, 1], kinds=[4, 5, 1], edges=[[0, 1], [1, 2], [2, 1]], params=0, exit_last=False)])
    ctx.pmap(job, jobs)


def _run(w):
    from androguard.decompiler import dataflow, graph, node
    g, nodes = make_graph(graph, node, tuple(w['shape']), w['kinds'], {tuple(e) for e in w['edges']}, w['exit_last'],
                          {tuple(e) for e in w.get('catch_edges', [])})
    g.compute_rpo()
    params = list(REGS[:w['params']])
    UD, DU = dataflow.build_def_use(g, params)
    return {repr(k): sorted(set(v)) for k, v in UD.items()}, nodes, params


def concrete(c):
    return _run(c)[0]


def replay(w):
    if w.get('kinds') is None:
        return False, w.get('note')
    try:
        got, nodes, params = _run(w)
    except Exception as e:
        return True, 'program %r raised %r' % (w, e)
    ref = {repr(k): sorted(v) for k, v in reference(nodes, {tuple(e) for e in w['edges']} | {tuple(e) for e in w.get('catch_edges', [])}, params).items()}
    diff = [k for k in set(got) | set(ref) if got.get(k, []) != ref.get(k, [])]
    prog = [[KINDS[k] for k in w['kinds']], w['edges'], 'catch edges', w.get('catch_edges', [])]
    return bool(diff), 'program %r: %s' % (prog, '; '.join('use %s: linked %s, reaching %s' % (k, got.get(k, []), ref.get(k, [])) for k in diff[:3]))
