"""C13: see vf/xref.py (shared skeleton / cross-reference harness; this module selects the obligations of C13)."""
from .. import xref


def run(ctx):
    xref.run(ctx, 'C13')


concrete = xref.concrete
replay = xref.replay
