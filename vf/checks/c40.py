"""C40: see vf/cfg.py (shared skeleton/CFG harness; this module selects the obligations of C40)."""
from .. import cfg


def run(ctx):
    cfg.run(ctx, 'C40')


concrete = cfg.concrete
replay = cfg.replay
