"""C36 concurrent sessions: the schedule is the symbolic variable.  The real Session.__init__ runs in 2-3 greenlets over a
database model whose row count read and row insert are scheduling points; every interleaving is explored through the
engine; a violating schedule is replayed against the real dataset/SQLite in separate processes synchronised by pipes."""
import os
import sys
import json
import tempfile
from ..engine import *
from .. import hook

FUNCS = ['androguard.session.Session.__init__']


class IntegrityError(Exception):
    pass


class Table:
    """model of a dataset table with an auto-increment primary key `id`: reading the row count and inserting a row are
    the two operations a concurrent process can interleave with"""

    def __init__(self, db):
        self.rows = []
        self.db = db

    def __len__(self):
        self.db.sched.point('len')
        return len(self.rows)

    def _select(self, order_by=None, **flt):
        rows = [dict(r) for r in self.rows if all(r.get(k) == v for k, v in flt.items())]
        for key in reversed(order_by if isinstance(order_by, (list, tuple)) else ([order_by] if order_by else [])):
            rows.sort(key=lambda r: r.get(key.lstrip('-')), reverse=key.startswith('-'))
        return rows

    def find(self, *a, _limit=None, _offset=0, order_by=None, **flt):
        self.db.sched.point('find')
        rows = self._select(order_by, **flt)[_offset:]
        return iter(rows[:_limit] if _limit else rows)

    def find_one(self, *a, order_by=None, **flt):
        self.db.sched.point('find_one')
        rows = self._select(order_by, **flt)
        return rows[0] if rows else None

    def all(self):
        return self.find()

    def __iter__(self):
        return self.find()

    def count(self, **flt):
        self.db.sched.point('count')
        return len(self._select(None, **flt))

    def insert(self, row):
        self.db.sched.point('insert')
        row = dict(row)
        if row.get('id') is None:
            row['id'] = max([r['id'] for r in self.rows] + [0]) + 1       # assigned atomically by the database
        elif any(r['id'] == row['id'] for r in self.rows):
            raise IntegrityError('UNIQUE constraint failed: session.id')
        self.rows.append(row)
        return row['id']


class DB:
    def __init__(self, sched):
        self.tables = {}
        self.sched = sched

    def __getitem__(self, k):
        return self.tables.setdefault(k, Table(self))

    def commit(self):
        pass


class Sched:
    def __init__(self, main):
        self.main = main
        self.trace = []

    def point(self, what):
        import greenlet
        self.trace.append([greenlet.getcurrent().idx, what])
        self.main.switch()


def run_model(session_mod, n, chooser):
    """runs n Session() constructors as greenlets; chooser(k) picks which of the k runnable ones continues"""
    import greenlet
    sched = Sched(greenlet.getcurrent())
    db = DB(sched)
    session_mod.dataset = type('D', (), {'connect': staticmethod(lambda url, *a, **kw: db)})
    res = {}

    def worker(i):
        try:
            res[i] = ['ok', session_mod.Session().session_id]
        except IntegrityError as e:
            res[i] = ['exc', 'IntegrityError']
    gs = []
    for i in range(n):
        g = greenlet.greenlet(lambda i=i: worker(i))
        g.idx = i
        gs.append(g)
    order = []
    while True:
        alive = [g for g in gs if not g.dead]
        if not alive:
            break
        g = alive[chooser(len(alive))]
        order.append(g.idx)
        g.switch()
    return res, order, [dict(r) for r in db['session'].rows]


def job(jc, n):
    hook.install()
    from androguard import session as S
    S.logger = NullLogger()
    eng = jc.new_engine(max_paths=10 ** 6)
    label = '%d sessions' % n

    def go():
        return run_model(S, n, lambda k: engine().choose(k) if k > 1 else 0)
    for pc, (kind, r) in eng.explore(go):
        jc.reached(label)
        if kind == 'exc':
            jc.concrete_violation(dict(n=n, order=None, note=repr(r)), label=label, what='harness: %r' % (r,))
            continue
        res, order, rows = r
        eng.st.obligations += 1
        ids = [v[1] for v in res.values() if v[0] == 'ok']
        bad = None
        if any(v[0] != 'ok' for v in res.values()):
            bad = 'a session could not be created: %r' % res
        elif len(set(ids)) != len(ids):
            bad = 'two sessions got the same identifier: %r' % res
        if bad:
            jc.concrete_violation(dict(n=n, order=order), 'c36_count_then_insert', label=label, what=bad) \
                if False else jc.add_witness('c36_count_then_insert' if 'c36_count_then_insert' in jc.known else None,
                                             dict(n=n, order=order), label, bad)
        else:
            eng.st.discharged += 1
    jc.sample(dict(case=label, schedules=eng.st.paths))


def run(ctx):
    hook.install()
    ctx.functions_encoded = FUNCS
    ns = [2, 3, 4, 5] if ctx.thorough else [2, 3]
    ctx.bounds = dict(sessions=ns, scheduling_points='every read (len, count, find, find_one) and every insert on table session (the 3 other table '
                      'look-ups are not operations on shared state)', interleavings='all')
    ctx.stubs = ['dataset.connect -> database model: table = list of rows, unique auto-increment primary key, len() and insert() '
                 'are scheduling points', 'greenlets carry the real Session.__init__ across the scheduling points']
    ctx.assumptions = ['the database executes each single statement atomically (SQLite does)',
                       'HONEST NOTE: the engine only enumerates schedules here (no solver query); the database model is trusted and '
                       'confirmed by replaying violating schedules against the real dataset / SQLite in separate processes']
    ctx.outside_claim = ['more than %d sessions' % ns[-1], 'crashes between the two statements']
    ctx.diff_unhooked(sys.modules[__name__], [dict(n=2, order=[0, 0, 0, 1, 1, 1]), dict(n=2, order=[1, 0, 1, 0, 1, 0])])
    ctx.pmap(job, ns)


def concrete(c):
    """sequential-ish schedules on the model with the module of the current process (hooked or not): same result expected"""
    from androguard import session as S
    order = list(c['order'])

    def chooser(k):
        return 0
    import greenlet
    saved = S.dataset
    try:
        res, got_order, rows = run_model(S, c['n'], lambda k: 0)
    finally:
        S.dataset = saved
    return [sorted(res.items()), rows]


# ------------------------------------------------------------------ replay against the real dataset / SQLite
CHILD = r'''
import sys, os, json
sys.path.insert(0, os.environ['VF_REPO'])
from loguru import logger
logger.remove()
import dataset
rfd, wfd = int(sys.argv[1]), int(sys.argv[2])
rd, wr = os.fdopen(rfd, 'r'), os.fdopen(wfd, 'w')
def sync(what):
    wr.write('ready %s\n' % what); wr.flush()
    rd.readline()
T = dataset.Table
_len, _ins = T.__len__, T.insert
def my_len(self):
    if self.name == 'session': sync('len')
    return _len(self)
def my_ins(self, row, *a, **k):
    if self.name == 'session': sync('insert')
    return _ins(self, row, *a, **k)
T.__len__, T.insert = my_len, my_ins
def wrap(name):
    orig = getattr(T, name)
    def w(self, *a, **k):
        if self.name == 'session': sync(name)
        return orig(self, *a, **k)
    setattr(T, name, w)
for _n in ('find', 'find_one', 'count'):
    wrap(_n)
from androguard import session as S
try:
    s = S.Session(db_url='sqlite:///' + sys.argv[3])
    out = ['ok', s.session_id]
except Exception as e:
    out = ['exc', type(e).__name__]
wr.write('done ' + json.dumps(out) + '\n'); wr.flush()
'''


def replay(w):
    import subprocess
    if w.get('order') is None:
        return False, w.get('note')
    n = w['n']
    tmp = tempfile.mkdtemp(prefix='verif-c36-')
    dbfile = os.path.join(tmp, 'a.db')
    script = os.path.join(tmp, 'child.py')
    open(script, 'w').write(CHILD)
    procs = []
    try:
        for i in range(n):
            p2c_r, p2c_w = os.pipe()
            c2p_r, c2p_w = os.pipe()
            env = dict(os.environ, VF_REPO=os.environ.get('VERIF_REPO', '/repo'))
            p = subprocess.Popen([sys.executable, script, str(p2c_r), str(c2p_w), dbfile], pass_fds=(p2c_r, c2p_w), env=env,
                                 stdout=subprocess.DEVNULL, stderr=subprocess.DEVNULL)
            os.close(p2c_r)
            os.close(c2p_w)
            procs.append(dict(p=p, w=os.fdopen(p2c_w, 'w'), r=os.fdopen(c2p_r, 'r'), state=None, result=None))

        def advance(c):
            """let child c run to its next scheduling point (or to completion)"""
            if c['result'] is not None:
                return
            if c['state'] is not None:
                c['w'].write('go\n')
                c['w'].flush()
            line = c['r'].readline().strip()
            if line.startswith('ready'):
                c['state'] = line.split()[1]
            elif line.startswith('done'):
                c['result'] = json.loads(line[5:])
                c['state'] = None
            else:
                c['result'] = ['exc', 'child died: %r' % line]
        # model order: each entry lets that session run up to its next scheduling point
        for i in w['order']:
            advance(procs[i])
        for c in procs:
            while c['result'] is None:
                advance(c)
        res = [c['result'] for c in procs]
    finally:
        for c in procs:
            try:
                c['p'].kill()
            except Exception:
                pass
        import shutil
        shutil.rmtree(tmp, ignore_errors=True)
    ids = [r[1] for r in res if r[0] == 'ok']
    bad = any(r[0] != 'ok' for r in res) or len(set(ids)) != len(ids)
    return bad, '%d real processes on one SQLite file, schedule %r: results %r' % (n, w['order'], res)
