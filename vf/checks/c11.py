"""C11: see vf/cfg.py (shared skeleton/CFG harness; this module selects the obligations of C11)."""
from .. import cfg


def run(ctx):
    cfg.run(ctx, 'C11')


concrete = cfg.concrete
replay = cfg.replay
