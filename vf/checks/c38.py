"""C38 clean_file_name: the five clauses of the property on symbolic file names (SymRe + posixpath model + arbitrary isfile)."""
import sys
import z3
from ..engine import *
from ..sstr import SStr, fresh_char, cpt
from ..symre import SymRe
from .. import common, hook

FUNCS = ['androguard.misc.clean_file_name']
RESERVED = '<>:"/\\|?*'
LIMIT = 230


FREE = 2


class SymPath:
    """posixpath.split / join over SStr; isfile is an arbitrary predicate (fresh boolean per query, first K free)"""
    queries = []
    free = 2

    @staticmethod
    def split(p):
        p = SStr.of(p)
        for i in range(len(p.c) - 1, -1, -1):
            if SStr([p.c[i]]) == '/':
                head = SStr(p.c[:i + 1])
                # posixpath strips trailing slashes of head unless it is all slashes
                h = head.c[:]
                while len(h) > 1 and isinstance(h[-1], int) and h[-1] == 47:
                    h.pop()
                if all(isinstance(x, int) and x == 47 for x in head.c):
                    h = head.c
                return SStr(h), SStr(p.c[i + 1:])
        return SStr([]), p

    @staticmethod
    def join(a, *rest):
        a = SStr.of(a)
        for b in rest:
            b = SStr.of(b)
            if len(b) and SStr([b.c[0]]) == '/':
                a = b
            elif len(a) == 0 or SStr([a.c[-1]]) == '/':
                a = a + b
            else:
                a = a + '/' + b
        return a

    @staticmethod
    def isfile(p):
        k = len(SymPath.queries)
        b = z3.Bool('isfile%d' % k) if k < SymPath.free else z3.BoolVal(False)
        ans = bool(SBool(b))
        SymPath.queries.append((p, ans))
        return ans

    @staticmethod
    def abspath(p):
        raise Inconclusive("abspath (force_nt branch) is outside the claim")


class SymOS:
    path = SymPath
    name = 'posix'


def windows(n):
    return set(range(5)) | set(range(224, min(n, 234))) | set(range(max(0, n - 6), n))


def job(jc, spec):
    n, unique, full, dirname = spec
    hook.install()
    from androguard import misc
    misc.re = SymRe
    from ..symre import wrap_compiled
    wrap_compiled(misc)
    misc.os = SymOS
    chars = []
    win = None if full else windows(n)
    for i in range(n):
        chars.append(fresh_char('c%d' % i) if win is None or i in win else ord('a'))
    name = SStr(chars)
    sym = [x for x in chars if isinstance(x, SInt)]
    pre = [z3.And(x.e != ord('/'), x.e <= 0x10FFFF) for x in sym]
    eng = jc.new_engine(pre=pre)
    label = 'len%d %s %s' % (n, 'unique' if unique else 'plain', 'all-symbolic' if full else 'windows')
    dpre = SStr.of(dirname + '/') if dirname else SStr([])

    def go():
        # every path starts like a fresh process: memoising helpers of the module are emptied ...
        for f in list(vars(misc).values()):
            if callable(getattr(f, 'cache_clear', None)):
                f.cache_clear()
        # ... and has one explicit history: the same call was made before, when no candidate existed yet (what a caller
        # does who writes the returned file and asks again).  The judged call is the second one.
        SymPath.queries = []
        SymPath.free = 0
        try:
            misc.clean_file_name(dpre + name, unique=unique)
        except Exception:
            pass
        finally:
            SymPath.free = FREE
        SymPath.queries = []
        r = misc.clean_file_name(dpre + name, unique=unique)
        return r, list(SymPath.queries)

    def ext(m, q=None):
        ans = []
        for k in range(SymPath.free):
            v = m.eval(z3.Bool('isfile%d' % k), model_completion=True)
            ans.append(bool(z3.is_true(v)))
        return dict(name=name.concrete(m), dir=dirname, unique=unique, isfile_answers=ans)
    plen = len(dpre)
    for pc, (kind, val) in eng.explore(go, keep_pcs=True):
        jc.reached('explored')
        if kind == 'exc':
            jc.obligation(eng, pc, z3.BoolVal(False), ext, REG(name, n), label=label, what='raised %r' % (val,))
            continue
        r, queries = val
        r = SStr.of(r) if isinstance(r, str) else r
        fn = r.c[plen:]
        obs = {
            'directory part': (SStr(r.c[:plen]).eq_term(dpre) if len(r.c) >= plen else z3.BoolVal(False)),
            'stays in directory (no separator in the name)': z3.And([cpt(x) != 47 for x in fn] + [z3.BoolVal(True)]),
            'length <= 230': z3.BoolVal(len(fn) <= LIMIT),
            'reserved/control characters': z3.And([z3.And(cpt(x) > 0x1f, *[cpt(x) != ord(ch) for ch in RESERVED])
                                                   for x in fn] + [z3.BoolVal(True)]),
            'trailing space or dot': z3.And(cpt(fn[-1]) != 32, cpt(fn[-1]) != 46) if fn else z3.BoolVal(True),
        }
        if unique:
            ok = bool(queries) and queries[-1][1] is False and len(queries[-1][0]) == len(r.c)
            obs['names an existing file'] = z3.And(z3.BoolVal(ok), SStr.of(queries[-1][0]).eq_term(r)) if ok else z3.BoolVal(False)
        jc.obligations(eng, pc, obs, ext, REG(name, n), label=label, what='%s: clause violated')
    eng.partition_guard()
    jc.sample(dict(case=label, symbolic_chars=len(sym), paths=eng.st.paths))


def REG(name, n):
    return {}


def run(ctx):
    ctx.functions_encoded = FUNCS
    hook.install()
    full = [0, 1, 2, 3, 4] + ([5, 6] if ctx.thorough else [])
    longs = [229, 230, 231, 233, 300] + ([232, 234, 240, 255, 460, 600] if ctx.thorough else [])
    ctx.bounds = dict(fully_symbolic_lengths=full, windowed_lengths=longs,
                      windows='characters 0..4, 224..233 and the last 6 are symbolic (any code point except /), the rest '
                              "is the filler 'a'", collisions='the first 2 isfile() answers are arbitrary, later ones False',
                      directories=['d', ''])
    ctx.stubs = ['SymRe (re.match / re.sub on symbolic strings, patterns parsed by CPython re._parser)',
                 'posixpath.split/join model over SStr', 'os.path.isfile = arbitrary predicate', "os.name = 'posix'",
                 'history: the same call once before with no existing file; memoising helpers of androguard.misc emptied at path start']
    ctx.assumptions = ["input file name contains no '/' (os.path.split removes it by construction)",
                       'filler characters behave like any character outside the classes the code distinguishes']
    ctx.outside_claim = ['force_nt / Windows branch', 'more than 2 colliding files',
                         'names whose special characters lie outside the symbolic windows']
    cases = [['d/abc', True], ['d/a b.', False], ['d/COM1', True], ['x' * 300 + '.txt', False], ['d/' + 'y' * 229 + ' z', False],
             ['a.' + 'e' * 300, False], ['d/<>:"|?*\x01', False], ['', True], ['d/', True]]
    ctx.diff_unhooked(sys.modules[__name__], cases)
    jobs = []
    for n in full:
        for u in (False, True):
            jobs.append((n, u, True, 'd'))
    jobs.append((3, True, True, ''))
    for n in longs:
        for u in (False, True):
            jobs.append((n, u, False, 'd'))
    ctx.pmap(job, jobs)


def concrete(c):
    from androguard import misc
    import os
    real = os.path.isfile
    os.path.isfile = lambda p: False
    try:
        return misc.clean_file_name(c[0], unique=c[1])
    finally:
        os.path.isfile = real


def replay(w):
    from androguard import misc
    import os
    answers = list(w['isfile_answers'])
    asked = []

    def fake(p):
        asked.append(p)
        return answers.pop(0) if answers else False
    real = os.path.isfile
    os.path.isfile = fake
    inp = (w['dir'] + '/' if w['dir'] else '') + w['name']
    try:
        # the history of the symbolic run: the same call before, nothing exists yet
        os.path.isfile = lambda p: False
        try:
            misc.clean_file_name(inp, unique=w['unique'])
        except Exception:
            pass
        os.path.isfile = fake
        try:
            r = misc.clean_file_name(inp, unique=w['unique'])
        except Exception as e:
            return True, 'clean_file_name(%r) raised %r' % (inp[:40], e)
    finally:
        os.path.isfile = real
    d, fn = os.path.split(r)
    bad = []
    if d != w['dir']:
        bad.append('directory %r != %r' % (d, w['dir']))
    if len(fn) > LIMIT:
        bad.append('length %d > 230' % len(fn))
    if any(ord(ch) <= 0x1f or ch in RESERVED for ch in fn):
        bad.append('reserved/control character')
    if fn and fn[-1] in ' .':
        bad.append('ends with %r' % fn[-1])
    if w['unique'] and (not asked or asked[-1] != r):
        bad.append('result was not checked against existing files')
    short = (repr(w['name'][:12]) + '...' + repr(w['name'][-10:])) if len(w['name']) > 30 else repr(w['name'])
    return bool(bad), 'name %s (len %d, isfile answers %s) -> %s: %s' % (
        short, len(w['name']), w['isfile_answers'], (repr(fn[:10]) + '...' + repr(fn[-10:])) if len(fn) > 30 else repr(fn),
        '; '.join(bad))
