"""C08 try/catch tables: DalvikCode / TryItem / EncodedCatchHandlerList / determineException vs the code_item spec."""
import sys
import struct
import itertools
import random
import z3
from ..engine import *
from .. import common

FUNCS = ['androguard.core.dex.DalvikCode.__init__', 'TryItem.__init__', 'EncodedCatchHandlerList.__init__',
         'EncodedCatchHandler.__init__', 'EncodedTypeAddrPair.__init__', 'readuleb128', 'readsleb128',
         'determineException', 'DalvikCode.get_tries', 'DalvikCode.get_handlers']


# ---------------------------------------------------------------- layouts
def layouts(thorough, seed):
    """(insns_size, n_tries, handler sizes tuple, two_byte_uleb flag)"""
    out = []
    sizes1 = [(s,) for s in (-2, -1, 0, 1, 2)]
    sizes2 = list(itertools.product((-2, -1, 0, 1, 2), repeat=2))
    for par in (3, 4):
        for k in (1, 2, 3):
            for hs in sizes1 + sizes2:
                for wide in (False, True):
                    out.append((par, k, hs, wide))
    if thorough:
        return out
    rnd = random.Random(seed)
    must = [(3, 3, (1, -1), False), (4, 3, (0, 2), True), (3, 1, (-2,), True), (4, 2, (2, -2), False),
            (3, 2, (0,), False), (4, 3, (-1, 1), True)]
    rest = [l for l in out if l not in must]
    return must + rnd.sample(rest, 30)


def uleb_syms(name, wide):
    """symbolic bytes of one uleb128 of fixed width 1 or 2, its value term, and the constraints that fix the width"""
    if not wide:
        b = fresh_byte(name)
        return [b], b.e, [b.e < 0x80]
    b0, b1 = fresh_byte(name + 'a'), fresh_byte(name + 'b')
    return [b0, b1], (b0.e & 0x7f) | (b1.e << 7), [b0.e >= 0x80, b1.e < 0x80]


class Layout:
    def __init__(self, par, k, hs, wide, tag=''):
        self.par, self.k, self.hs, self.wide = par, k, hs, wide
        pre = []
        items = list(struct.pack('<4H2I', 3, 1, 0, k, 0, par)) + [0, 0] * par
        if par % 2 == 1:
            items += [0, 0]
        self.tries = []
        for t in range(k):
            bs = [fresh_byte('%st%d_%d' % (tag, t, i)) for i in range(8)]
            start = bs[0].e | (bs[1].e << 8) | (bs[2].e << 16) | (bs[3].e << 24)
            count = bs[4].e | (bs[5].e << 8)
            hoff = bs[6].e | (bs[7].e << 8)
            self.tries.append((bs, start, count, hoff))
            items += bs
        self.h_base = len(items)
        items.append(len(hs))
        self.lists = []          # (offset relative to h_base, [(type term, addr term)], catch_all term|None)
        for j, sz in enumerate(hs):
            off = len(items) - self.h_base
            items.append(sz & 0x7f)
            pairs = []
            for i in range(abs(sz)):
                tb, tv, tc = uleb_syms('%sh%d_%d_t' % (tag, j, i), wide)
                ab, av, ac = uleb_syms('%sh%d_%d_a' % (tag, j, i), wide)
                items += tb + ab
                pre += tc + ac
                pairs.append((tv, av))
            ca = None
            if sz <= 0:
                cb, ca, cc = uleb_syms('%sh%d_c' % (tag, j), wide)
                items += cb
                pre += cc
            self.lists.append((off, pairs, ca))
        self.end = len(items)
        items += [0x5a, 0x5a]
        # every try points at the start of one of the handler lists (well-formed code item)
        for bs, start, count, hoff in self.tries:
            pre.append(z3.Or([hoff == off for off, _, _ in self.lists]))
        self.items, self.pre = items, pre

    def expected(self, t, j):
        """reference report of try t when it uses list j"""
        bs, start, count, hoff = self.tries[t]
        off, pairs, ca = self.lists[j]
        hl = [(('type', tv), av * 2) for tv, av in pairs]
        if ca is not None:
            hl.append(('Ljava/lang/Throwable;', ca * 2))
        return [start * 2, (start + count) * 2 - 1], hl


class VM:
    def get_cm_type(self, i):
        return ('type', i)


class M:
    def __init__(self, c): self.c = c
    def get_code(self): return self.c


def teq(a, b):
    """z3 equality of a reported type entry with an expected one"""
    if isinstance(b, str) or isinstance(a, str):
        return z3.BoolVal(a == b) if isinstance(a, str) and isinstance(b, str) else z3.BoolVal(False)
    return z3.And(z3.BoolVal(a[0] == b[0]), bv(a[1]) == b[1])


def job(jc, lay):
    dex = common.dexmod()
    par, k, hs, wide = lay
    L = Layout(par, k, hs, wide)
    cm = common.SymCM(dex)
    eng = jc.new_engine(pre=L.pre)
    label = 'insns%d tries%d lists%s %s' % (par, k, list(hs), 'uleb2' if wide else 'uleb1')

    def go():
        f = dex.io.BytesIO(SBytes(L.items))
        code = dex.DalvikCode(f, cm)
        rep = dex.determineException(VM(), M(code))
        tries = [(t.get_start_addr(), t.get_insn_count(), t.get_handler_off()) for t in code.get_tries()]
        hl = code.get_handlers()
        lists = [(h.get_size(), [(p.get_type_idx(), p.get_addr()) for p in h.get_handlers()],
                  h.get_catch_all_addr() if h.get_size() <= 0 else None) for h in hl.get_list()]
        return dict(rep=rep, tries=tries, lists=lists, pos=f.tell(), hoff=hl.get_off())

    def ext(m):
        return dict(bytes=bytes(mval(m, x) for x in L.items).hex(), layout=[par, k, list(hs), wide])
    for pc, (kind, r) in eng.explore(go, keep_pcs=True):
        jc.reached('explored')
        if kind == 'exc':
            jc.obligation(eng, pc, z3.BoolVal(False), ext, label=label, what='raised %r' % (r,))
            continue
        obs = {}
        obs['consumed'] = bv(r['pos']) == L.end
        obs['get_tries'] = z3.And([z3.BoolVal(len(r['tries']) == k)] + [
            z3.And(bv(a) == s, bv(b) == c, bv(h) == o) for (a, b, h), (_, s, c, o) in zip(r['tries'], L.tries)])
        lo = [z3.BoolVal(len(r['lists']) == len(hs))]
        for (sz, prs, ca), (off, pairs, eca), want_sz in zip(r['lists'], L.lists, hs):
            lo.append(bv(sz) == want_sz)
            lo.append(z3.BoolVal(len(prs) == len(pairs)))
            lo += [z3.And(bv(a) == x, bv(b) == y) for (a, b), (x, y) in zip(prs, pairs)]
            lo.append(z3.BoolVal((ca is None) == (eca is None)))
            if ca is not None and eca is not None:
                lo.append(bv(ca) == eca)
        obs['get_handlers'] = z3.And(lo)
        # determineException: multiset of (range, handlers); the try -> list association is the solver's choice,
        # so the expectation is a disjunction over the lists each try may point at
        rep = r['rep']

        def entry_eq(z, t):
            alts = []
            for j in range(len(hs)):
                rng, hl = L.expected(t, j)
                if len(z) != 2 + len(hl):
                    continue
                c = [L.tries[t][3] == L.lists[j][0], bv(z[0]) == rng[0], bv(z[1]) == rng[1]]
                for got, (ty, ad) in zip(z[2:], hl):
                    c.append(teq(got[0], ty))
                    c.append(bv(got[1]) == ad)
                alts.append(z3.And(c))
            return z3.Or(alts + [z3.BoolVal(False)])
        if len(rep) != k:
            obs['determineException'] = z3.BoolVal(False)
        else:
            perms = []
            for perm in itertools.permutations(range(k)):
                perms.append(z3.And([entry_eq(rep[i], perm[i]) for i in range(k)]))
            obs['determineException'] = z3.Or(perms)
        jc.obligations(eng, pc, obs, ext, label=label, what='%s differs from the encoded try/handler tables')
    eng.partition_guard()
    jc.sample(dict(layout=label, symbolic_bytes=sum(1 for x in L.items if isinstance(x, SInt)), paths=eng.st.paths))


def run(ctx):
    common.dexmod()
    ctx.functions_encoded = FUNCS
    lays = layouts(ctx.thorough, ctx.seed)
    ctx.bounds = dict(layouts=len(lays), tries='1..3 per code item, all 64 bits of each try_item symbolic',
                      handler_lists='1..2 lists, sizes -2..2, type_idx/addr/catch_all uleb128 of 1 or 2 bytes, all symbolic',
                      insns_size='3 (padding before tries) and 4', tier_note='quick = 36 seeded layouts, thorough = all 360')
    ctx.stubs = ['SymStruct', 'SymIO', 'vm.get_cm_type returns (type, index) tags']
    ctx.assumptions = ['handler_off of every try item points at the start of one of the encoded handler lists',
                       'try ranges are compared as a multiset (grouping by handler changes the order of the report)']
    ctx.outside_claim = ['more than 3 tries / 2 handler lists / 2 handlers per list; uleb128 of 3-5 bytes (C03 covers the decoder)',
                         'dangling handler_off']
    # Serval-style validation
    rnd = random.Random(ctx.seed)
    cases = []
    for lay in lays[:12]:
        L = Layout(*lay, tag='v')
        s = z3.Solver()
        s.add(*L.pre)
        for _ in range(3):
            s.push()
            s.add(L.tries[0][0][0].e == rnd.randrange(256), L.tries[0][0][4].e == rnd.randrange(256))
            if s.check() == z3.sat:
                m = s.model()
                cases.append(bytes(mval(m, x) for x in L.items).hex())
            s.pop()
    ctx.diff_unhooked(sys.modules[__name__], cases)
    ctx.pmap(job, lays)


def concrete(c):
    from androguard.core import dex
    import io
    cm = common.SymCM(dex)
    f = dex.io.BytesIO(bytes.fromhex(c))
    code = dex.DalvikCode(f, cm)
    rep = dex.determineException(VM(), M(code))
    return [rep, f.tell()]


# ---------------------------------------------------------------- independent concrete reference for replay
def ref_decode(bs):
    regs, ins, outs, k, dbg, n = struct.unpack_from('<4H2I', bs, 0)
    p = 16 + 2 * n
    if n % 2 == 1 and k > 0:
        p += 2
    tries = [struct.unpack_from('<IHH', bs, p + 8 * t) for t in range(k)]
    base = p + 8 * k
    q = [base]

    def uleb():
        v, sh = 0, 0
        while True:
            b = bs[q[0]]
            q[0] += 1
            v |= (b & 0x7f) << sh
            sh += 7
            if not b & 0x80:
                return v

    def sleb():
        v, sh = 0, 0
        while True:
            b = bs[q[0]]
            q[0] += 1
            v |= (b & 0x7f) << sh
            sh += 7
            if not b & 0x80:
                return v - (1 << sh) if b & 0x40 else v
    nl = uleb()
    lists = {}
    for _ in range(nl):
        off = q[0] - base
        sz = sleb()
        hl = [[['type', uleb()], uleb() * 2] for _ in range(abs(sz))]
        hl = [[tuple(a), b] for a, b in hl]
        if sz <= 0:
            hl.append(['Ljava/lang/Throwable;', uleb() * 2])
        lists[off] = hl
    out = []
    for s, c, h in tries:
        out.append([s * 2, (s + c) * 2 - 1] + [list(x) for x in lists[h]])
    return out, q[0]


def _norm(rep):
    return sorted([[e[0], e[1]] + [[list(h[0]) if isinstance(h[0], tuple) else h[0], h[1]] for h in e[2:]] for e in rep], key=repr)


def replay(w):
    from androguard.core import dex
    import io
    bs = bytes.fromhex(w['bytes'])
    exp, end = ref_decode(bs)
    exp = _norm(exp)
    try:
        f = io.BytesIO(bs)
        code = dex.DalvikCode(f, common.SymCM(dex))
        got = _norm(dex.determineException(VM(), M(code)))
        pos = f.tell()
        tr = [(t.get_start_addr(), t.get_insn_count(), t.get_handler_off()) for t in code.get_tries()]
    except Exception as e:
        return True, 'code item raised %r' % e
    regs, ins, outs, k, dbg, n = struct.unpack_from('<4H2I', bs, 0)
    p = 16 + 2 * n + (2 if n % 2 else 0)
    tr_exp = [struct.unpack_from('<IHH', bs, p + 8 * t) for t in range(k)]
    bad = got != exp or pos != end or tr != tr_exp
    return bad, 'determineException=%r expected %r; tries %r expected %r; consumed %d expected %d' % (got, exp, tr, tr_exp, pos, end)
