"""C16: see vf/xref.py (one DEX vs the same classes split over two DEX files added in both orders)."""
from .. import xref


def run(ctx):
    xref.run16(ctx)


concrete = xref.concrete16
replay = xref.replay16
