"""C26 binary XML -> XML tree.  Documents come from the independent writer vf/axmlw.py; fields of the binary document are
overlaid with symbolic bytes and the real AXMLParser / StringBlock / AXMLPrinter run on them (lxml, a C library, is
replaced by a storing stand-in); per path the produced tree must equal the tree the reference semantics of the format
gives for the same symbolic fields.

 job kinds
  length   StringBlock._decode_length on 4 symbolic bytes (8 and 16 bit), vs the AOSP decodeLength
  fields   a group of fields of one document symbolic over its whole well-formed domain: string-pool indices of element /
           attribute / namespace / text / comment references, the typed value (type: every AOSP type, data: all 2^32 words),
           resource-map ids, string offsets, and the fields the tree must not depend on (line numbers, id / class /
           style indices, CDATA typed value) over their full range
  content  the bytes of one pool string symbolic (UTF-8 layouts of 1..4 byte sequences, UTF-16 units and surrogate pairs):
           attribute value, text, element and attribute name
"""
import itertools
import random
import sys
import z3
from ..engine import *
from ..sstr import SStr, cpt
from .. import common, hook, axmlw
from ..fetree import FEtree, plain, from_lxml
from . import c27

FUNCS = ['androguard.core.axml.AXMLPrinter.__init__', 'AXMLPrinter._fix_name', '_fix_value', '_get_attribute_value', '_print_namespace',
         'AXMLParser.__init__', 'AXMLParser._do_next', 'AXMLParser.name/namespace/nsmap/text/comment', 'getAttributeName',
         'getAttributeNamespace', 'getAttributeValue', 'getAttributeValueType', 'getAttributeValueData', 'StringBlock.__init__',
         'StringBlock.getString', '_decode8', '_decode16', '_decode_length', '_decode_bytes', 'ARSCHeader.__init__', 'format_value']
A = 'http://schemas.android.com/apk/res/android'
APP = 'http://schemas.android.com/apk/res-auto'
NONE = 0xFFFFFFFF
TYPES = sorted(v for v in c27.T.values() if v not in (0, 3))


# ------------------------------------------------------------------ templates (document models)
def E(name, attrs=(), kids=(), ns=None, comment=None):
    return dict(ns=ns, name=name, attrs=list(attrs), kids=list(kids), comment=comment)


def S(name, value, ns=A):
    return dict(ns=ns, name=name, type=3, value=value)


def V(name, ty, data, ns=A, raw=None):
    return dict(ns=ns, name=name, type=ty, data=data, raw=raw)


def curated():
    return [
        dict(utf8=True, namespaces=[('android', A)], resids={'label': 0x01010001, 'icon': 0x01010002, 'name': 0x01010003},
             extra_strings=['urn:other', 'zeta'],
             root=E('manifest', [S('package', 'com.x.y', ns=None), V('versionCode', 0x10, 7, raw='7')],
                    [E('application', [S('label', 'Lé 中'), V('icon', 1, 0x7f020000), V('debuggable', 0x12, 0xffffffff)],
                       [E('activity', [S('name', '.Main')], comment='main screen'), E('b', [], ['some text'])])])),
        dict(utf8=False, namespaces=[('android', A), ('app', APP)], resids={'layout_width': 0x010100f4, 'textSize': 0x01010095},
             extra_strings=['q'],
             root=E('LinearLayout', [V('layout_width', 0x10, 0xffffffff), V('textSize', 5, 0x00000e02), S('title', 'T\U0001F600x', ns=APP)],
                    [E('TextView', [V('alpha', 4, 0x3f000000, ns=APP), V('tint', 0x1c, 0xff00ff00, ns=APP)], ['caption']),
                     E('com.example.Widget', [V('frac', 6, 0x00003231, ns=APP)], [E('leaf')])])),
        dict(utf8=True, namespaces=[], resids={}, extra_strings=['x.y-z', '_u'],
             root=E('resources', [], [E('item', [S('k', 'v1', ns=None)], ['one']), E('item', [S('k', 'v2', ns=None)], ['two']),
                                      E('group', [], [E('item', [V('n', 0x11, 0x1f, ns=None)])])])),
        dict(utf8=False, namespaces=[('android', A)], resids={'theme': 0x01010000}, extra_strings=[],
             root=E('a', [V('theme', 2, 0x01030005)], ['head', 'head2', E('b', [], ['inner', 'inner2']), 'tail1', 'tail1b', E('c'), 'tail2'])),
    ]


def gen_doc(rnd):
    names = ['n%d' % i for i in range(4)] + ['Tag.A', 'w-x', '_p']
    texts = ['täxt', 'plain', 'x\U0001F642', '  spaced  ', '中文']
    utf8 = rnd.random() < 0.5
    nss = [('android', A)] + ([('app', APP)] if rnd.random() < 0.5 else [])
    resids = {}

    def attr():
        ns = rnd.choice([None] + [u for _, u in nss])
        name = rnd.choice(['a%d' % i for i in range(5)])
        if rnd.random() < 0.4:
            return S(name, rnd.choice(texts), ns=ns)
        ty = rnd.choice(TYPES)
        data = rnd.getrandbits(32)
        if ty == 5:
            data = (data & ~0xf) | rnd.randrange(6)
        if ty == 6:
            data = (data & ~0xf) | rnd.randrange(2)
        return V(name, ty, data, ns=ns)

    def elem(depth):
        at = {}
        for _ in range(rnd.randrange(0, 3)):
            a = attr()
            at[(a['ns'], a['name'])] = a
        kids = []
        if depth < 2:
            for _ in range(rnd.randrange(0, 3)):
                kids.append(elem(depth + 1) if rnd.random() < 0.7 else rnd.choice(texts))
        return E(rnd.choice(names), list(at.values()), kids, ns=rnd.choice([None, None] + [u for _, u in nss]),
                 comment=rnd.choice([None, None, 'c1']) if depth else None)
    return dict(utf8=utf8, namespaces=nss, resids=resids, extra_strings=['zz'], root=elem(0))


def templates(seed, n):
    rnd = random.Random(seed * 31 + 5)
    out = curated()
    while len(out) < n:
        out.append(gen_doc(rnd))
    return out


# ------------------------------------------------------------------ index-level model + reference semantics
def index_doc(doc, L):
    idx = {s: i for i, s in enumerate(L.pool)}

    def r(s):
        return NONE if s is None else idx[s]
    n_map = len([s for s in L.pool if s in doc.get('resids', {})])
    D = dict(strings=list(L.pool), resmap=[doc['resids'][s] for s in L.pool[:n_map]],
             namespaces=[[idx[p], idx[u]] for p, u in doc.get('namespaces', [])])
    counter = [0]

    def conv(e):
        n = counter[0]
        counter[0] += 1
        attrs = []
        for a in e['attrs']:
            if a['type'] == 3:
                attrs.append(dict(ns=r(a['ns']), name=idx[a['name']], raw=idx[a['value']], type=3, data=idx[a['value']]))
            else:
                attrs.append(dict(ns=r(a['ns']), name=idx[a['name']], raw=r(a.get('raw')), type=a['type'], data=a['data']))
        kids = []
        for k in e['kids']:
            kids.append(conv(k) if isinstance(k, dict) else idx[k])
        return dict(n=n, ns=r(e['ns']), name=idx[e['name']], comment=r(e.get('comment')), attrs=attrs, kids=kids)
    D['root'] = conv(doc['root'])
    return D


def system_attr_names():
    from androguard.core.resources import public
    return public.SYSTEM_RESOURCES['attributes']['inverse']


def ref_tree(D, sysnames):
    """reference semantics of the format: the tree (tags, attribute names/values, text, comments) of an index-level document.
    Values are str / SStr, or ('typed', type, data) for typed attribute values."""
    strings = D['strings']

    def s(i):
        return '' if i == NONE else strings[i]

    def q(ns, name):
        u = s(ns)
        if isinstance(u, str) and u == '':
            return name
        return '{' + u + '}' + name

    def attr_name(i):
        if i < len(D['resmap']) and D['resmap'][i] in sysnames:
            return sysnames[D['resmap'][i]]
        return strings[i]

    def conv(e):
        attrs = []
        for a in e['attrs']:
            val = s(a['data']) if a['type'] == 3 else ('typed', a['type'], a['data'])
            attrs.append((q(a['ns'], attr_name(a['name'])), val))
        kids = []
        text = None
        for k in e['kids']:
            if isinstance(k, dict):
                kids.append(conv(k))
            elif not kids:
                text = s(k) if text is None else text + s(k)
            else:
                kids[-1]['tail'] = s(k) if kids[-1]['tail'] is None else kids[-1]['tail'] + s(k)
        return dict(tag=q(e['ns'], s(e['name'])), attrs=attrs, text=text, kids=kids, tail=None,
                    comment=None if e['comment'] == NONE else s(e['comment']))
    return conv(D['root'])


def s_eq(a, b):
    if a is None or b is None:
        return z3.BoolVal(a is None and b is None)
    if isinstance(a, str) and isinstance(b, str):
        return z3.BoolVal(a == b)
    if isinstance(a, (str, SStr)) and isinstance(b, (str, SStr)):
        return SStr.of(a).eq_term(SStr.of(b))
    return z3.BoolVal(False)


def v_eq(obs, exp):
    if isinstance(exp, tuple):
        _, ty, data = exp
        if isinstance(ty, int) and isinstance(data, int):
            return z3.BoolVal(isinstance(obs, str) and ty in TYPES and c27.ref_check(ty, data, obs) == [])
        D_ = SInt.of(data)
        if isinstance(ty, int):
            return c27.obligation_for(ty, D_, obs) if ty in TYPES else z3.BoolVal(False)
        return z3.And([z3.Implies(ty.e == t, c27.obligation_for(t, D_, obs)) for t in TYPES] +
                      [z3.Or([ty.e == t for t in TYPES])])
    return s_eq(obs, exp)


def t_eq(obs, exp, root=True):
    """z3 term: observed plain tree equals the expected one (attribute order is irrelevant in XML; names are unique)"""
    c = [s_eq(obs['tag'], exp['tag']), s_eq(obs['text'], exp['text']), s_eq(obs['tail'], exp['tail']),
         z3.BoolVal(len(obs['kids']) == len(exp['kids']) and len(obs['attrs']) == len(exp['attrs'])),
         z3.BoolVal('dangling_comment' not in obs and 'comment_tail' not in obs)]
    if not root:
        c.append(s_eq(obs['comment'], exp['comment']))
    if len(obs['attrs']) == len(exp['attrs']):
        for (ok, ov), (ek, ev) in zip(obs['attrs'], exp['attrs']):
            c += [s_eq(ok, ek), v_eq(ov, ev)]
    if len(obs['kids']) == len(exp['kids']):
        for a, b in zip(obs['kids'], exp['kids']):
            c.append(t_eq(a, b, False))
    return z3.And(c)


# ------------------------------------------------------------------ harness pieces
def setup():
    axml = common.axmlmod()
    from ..symre import SymRe
    axml.re = SymRe
    axml.etree = FEtree
    return axml


NAME_OK = __import__('re').compile(r'^[A-Za-z_][A-Za-z0-9._-]*$')


def le(items, off, size):
    v = None
    for k in range(size):
        x = SInt.of(items[off + k]) << (8 * k)
        v = x if v is None else (v | x)
    return v


def sym_field(items, name, off, size):
    bs = [fresh_byte('%s_%d' % (name, k)) for k in range(size)]
    items[off:off + size] = bs
    e = z3.Concat(*[z3.Extract(7, 0, bs[k].e) for k in reversed(range(size))]) if size > 1 else z3.Extract(7, 0, bs[0].e)
    return SInt(z3.ZeroExt(W - 8 * size, e), 0, (1 << (8 * size)) - 1)


def groups_of(doc, D, L, thorough):
    """symbolic field groups of one document: list of (label, [(field name, kind)])"""
    out = [('meta', [(f, 'free') for f in L.fields if f.split('.')[-1] in ('line', 'end_line', 'id_index', 'class_index', 'style_index', 'typed')])]
    elems = []

    def walk(e):
        elems.append(e)
        for k in e['kids']:
            if isinstance(k, dict):
                walk(k)
    walk(D['root'])
    for e in elems:
        n = e['n']
        out.append(('element %d reference' % n, [('e%d.ns' % n, 'ns'), ('e%d.name' % n, 'name')]))
        if n:
            out.append(('element %d comment' % n, [('e%d.comment' % n, 'comment')]))
        for j, a in enumerate(e['attrs']):
            out.append(('element %d attribute %d name' % (n, j), [('e%d.a%d.ns' % (n, j), 'ns'), ('e%d.a%d.name' % (n, j), 'aname')]))
            out.append(('element %d attribute %d value' % (n, j), [('e%d.a%d.type' % (n, j), 'type'), ('e%d.a%d.data' % (n, j), 'data'),
                                                                   ('e%d.a%d.raw' % (n, j), 'raw')]))
        t = 0
        for k in e['kids']:
            if not isinstance(k, dict):
                out.append(('element %d text %d' % (n, t), [('e%d.t%d.idx' % (n, t), 'text')]))
                t += 1
    for k in range(len(D['namespaces'])):
        out.append(('namespace %d' % k, [('ns%d.prefix' % k, 'prefix'), ('ns%d.uri' % k, 'uri')]))
    for j in range(len(D['resmap'])):
        out.append(('resource map %d' % j, [('resid%d' % j, 'resid')]))
    for i in range(len(D['strings'])):
        out.append(('string offset %d' % i, [('stroff%d' % i, 'stroff')]))
    return out


def field_pos(L, name):
    """(offset, size, tied offsets) of a named field"""
    if name in L.fields:
        tied = []
        if name.endswith('.ns') and name.count('.') == 1:
            tied = [L.fields[name[:-3] + '.end_ns'][0]]
        if name.endswith('.name') and name.count('.') == 1:
            tied = [L.fields[name[:-5] + '.end_name'][0]]
        return L.fields[name][0], L.fields[name][1], tied
    if name.startswith('ns'):
        k = int(name[2:name.index('.')])
        starts = [c for c in L.chunks if c['kind'] == axmlw.XML_START_NS]
        ends = [c for c in L.chunks if c['kind'] == axmlw.XML_END_NS]
        o = 16 if name.endswith('prefix') else 20
        return starts[k]['at'] + o, 4, [ends[len(ends) - 1 - k]['at'] + o]
    if name.startswith('resid'):
        return L.resmap_at + 4 * int(name[5:]), 4, []
    if name.startswith('stroff'):
        return L.string_offsets_at + 4 * int(name[6:]), 4, []
    raise KeyError(name)


def apply_field(D, name, v):
    """index-level document with field `name` set to v (int or SInt for type/data)"""
    D = dcopy(D)

    def find(e, n):
        if e['n'] == n:
            return e
        for k in e['kids']:
            if isinstance(k, dict):
                r = find(k, n)
                if r:
                    return r
    if name.startswith('e'):
        parts = name.split('.')
        e = find(D['root'], int(parts[0][1:]))
        if len(parts) == 2:
            e[parts[1]] = v
        elif parts[1][0] == 'a':
            e['attrs'][int(parts[1][1:])][parts[2]] = v
        else:
            t = int(parts[1][1:])
            pos = [i for i, k in enumerate(e['kids']) if not isinstance(k, dict)][t]
            e['kids'][pos] = v
    elif name.startswith('ns'):
        k = int(name[2:name.index('.')])
        D['namespaces'][k][0 if name.endswith('prefix') else 1] = v
    elif name.startswith('resid'):
        D['resmap'][int(name[5:])] = v
    elif name.startswith('stroff'):
        i = int(name[6:])
        D['strings'][i] = D['strings'][D['_offs'].index(v)]
    return D


def domain(kind, D, doc, sysnames, fname):
    strings = D['strings']
    valid_names = [i for i, s in enumerate(strings) if NAME_OK.match(s)]
    if kind in ('name', 'prefix'):
        return valid_names
    if kind == 'aname':
        # a name covered by the resource map is resolved through its id: keep those consistent (same index) or move
        # to names outside the map
        return [i for i in valid_names if i >= len(D['resmap'])]
    if kind == 'ns':
        return [NONE] + [i for i, s in enumerate(strings) if s.startswith(('http', 'urn:'))]
    if kind == 'uri':
        return [i for i, s in enumerate(strings) if s.startswith(('http', 'urn:'))]
    if kind == 'text':
        return list(range(len(strings)))
    if kind == 'comment':
        return [NONE] + [i for i, s in enumerate(strings) if s and '--' not in s and not s.endswith('-')]
    if kind == 'stroff':
        # the entry may point at any string of the same kind (name / URI / free text), so that the document stays well formed
        def cls(x):
            return 'name' if NAME_OK.match(x) else 'uri' if x.startswith(('http', 'urn:')) else 'text'
        i = int(fname[6:])
        return [o for o, x in zip(D['_offs'], strings) if cls(x) == cls(strings[i])]
    if kind == 'resid':
        j = int(fname[5:])
        own = D['resmap'][j]
        return [own, 0x7f010000 + j, 0x01017777, 0x02010001]
    raise KeyError(kind)


def job(jc, spec):
    import time, os
    t0 = time.time()
    try:
        return job_(jc, spec)
    finally:
        if os.environ.get('VERIF_TIMING'):
            sys.stderr.write('TIMING %s %.1fs\n' % (str(spec if spec[0] != 'fields' else (spec[0], spec[1], spec[3]))[:100], time.time() - t0))


def job_(jc, spec):
    kind = spec[0]
    if kind == 'length':
        return job_length(jc, spec[1])
    if kind == 'decode':
        return job_decode(jc, spec[1])
    if kind == 'content':
        return job_content(jc, *spec[1:])
    _, ti, doc, gi = spec
    axml = setup()
    sysnames = system_attr_names()
    blob, L = axmlw.write(doc)
    D = index_doc(doc, L)
    D['_offs'] = list(L.string_off)
    label, fields = groups_of(doc, D, L, True)[gi]
    label = 'doc %d: %s' % (ti, label)
    items = list(blob)
    pre = []
    S_ = {}
    idx_fields = []
    for fname, fk in fields:
        off, size, tied = field_pos(L, fname)
        v = sym_field(items, fname.replace('.', '_'), off, size)
        for t_off in tied:
            items[t_off:t_off + size] = items[off:off + size]
        S_[fname] = v
        if fk in ('free', 'data', 'type', 'raw'):
            continue
        dom = domain(fk, D, doc, sysnames, fname)
        pre.append(z3.Or([v.e == d for d in dom]))
        idx_fields.append((fname, dom))
    # typed value group: type over the AOSP table, data all words (legal unit nibbles), raw = none or any string
    tv = [f for f, k in fields if k == 'type']
    if tv:
        base = tv[0][:-5]
        ty, da, raw = S_[base + '.type'], S_[base + '.data'], S_[base + '.raw']
        nstr = len(D['strings'])
        pre.append(z3.Or([ty.e == t for t in TYPES] + [ty.e == 3]))
        pre.append(z3.Implies(ty.e == 5, (da.e & 0xf) < 6))
        pre.append(z3.Implies(ty.e == 6, (da.e & 0xf) < 2))
        pre.append(z3.If(ty.e == 3, z3.And(raw.e == da.e, da.e < nstr), z3.Or(raw.e == NONE, raw.e < nstr)))
    eng = jc.new_engine(pre=pre)

    def go():
        p = axml.AXMLPrinter(SBytes(items))
        return p.is_valid(), plain(p.root) if p.root is not None else None

    def ext(m):
        return dict(kind='fields', doc=doc, fields={f: mval(m, v) for f, v in S_.items()}, blob=mbytes(m, items).hex())
    for pc, (k, r) in eng.explore(go, keep_pcs=True):
        jc.reached('fields')
        if k == 'exc':
            jc.obligation(eng, pc, z3.BoolVal(False), ext, label=label, what='printer raised %r' % (r,))
            continue
        valid, obs = r
        if not valid or obs is None:
            jc.obligation(eng, pc, z3.BoolVal(False), ext, label=label, what='well-formed document rejected')
            continue
        if tv:
            D2 = apply_field(apply_field(D, base + '.type', ty), base + '.data', da)
            ob = judge_typed(D2, sysnames, base, ty, da, obs)
        else:
            alts = []
            for combo in itertools.product(*[dom for _, dom in idx_fields]):
                D2 = D
                for (fname, _), v in zip(idx_fields, combo):
                    D2 = apply_field(D2, fname, v)
                exp = ref_tree(D2, sysnames)
                if has_duplicate_attrs(exp):
                    continue                # two attributes of one element with the same name: not a well-formed document
                cond = z3.And([S_[fname].e == v for (fname, _), v in zip(idx_fields, combo)] + [z3.BoolVal(True)])
                alts.append(z3.Implies(cond, t_eq(obs, exp)))
            ob = z3.And(alts + [z3.BoolVal(True)])
        jc.obligation(eng, pc, ob, ext, label=label, what='printed tree differs from the encoded document')
    eng.partition_guard()
    jc.sample(dict(case=label, symbolic=[f for f, _ in fields], paths=eng.st.paths), limit=8)


def judge_typed(D2, sysnames, base, ty, da, obs):
    """typed value (type, data) of attribute `base` symbolic: a string attribute reads strings[data] (one alternative per
    index), every other type renders (type, data)"""
    c = [z3.Implies(ty.e != 3, t_eq(obs, ref_tree(D2, sysnames)))]
    for i in range(len(D2['strings'])):
        D3 = apply_field(apply_field(D2, base + '.type', 3), base + '.data', i)
        c.append(z3.Implies(z3.And(ty.e == 3, da.e == i), t_eq(obs, ref_tree(D3, sysnames))))
    return z3.And(c)


def has_duplicate_attrs(t):
    keys = [k for k, _ in t['attrs']]
    return len(set(keys)) != len(keys) or any(has_duplicate_attrs(k) for k in t['kids'])


def dcopy(x):
    if isinstance(x, dict):
        return {k: dcopy(v) for k, v in x.items()}
    if isinstance(x, list):
        return [dcopy(v) for v in x]
    return x


# ------------------------------------------------------------------ length kernel
def job_length(jc, sizeof_char):
    axml = setup()
    bs = [fresh_byte('b%d' % i) for i in range(4)]
    eng = jc.new_engine()
    sb = axml.StringBlock.__new__(axml.StringBlock)
    label = '_decode_length %d-bit' % (8 * sizeof_char)

    def go():
        sb.m_charbuff = SBytes(bs)
        return sb._decode_length(0, sizeof_char)

    def ext(m):
        return dict(kind='length', sizeof_char=sizeof_char, bytes=mbytes(m, bs).hex())
    for pc, (k, r) in eng.explore(go, keep_pcs=True):
        jc.reached('length')
        if k == 'exc':
            jc.obligation(eng, pc, z3.BoolVal(False), ext, label=label, what='raised %r' % (r,))
            continue
        ln, size = r
        if sizeof_char == 1:
            u0, u1 = bs[0].e, bs[1].e
            hi, bits = 0x80, 8
        else:
            u0 = bs[0].e | (bs[1].e << 8)
            u1 = bs[2].e | (bs[3].e << 8)
            hi, bits = 0x8000, 16
        two = (u0 & hi) != 0
        want_len = z3.If(two, ((u0 & (hi - 1)) << bits) | u1, u0)
        want_size = z3.If(two, bv(2 * sizeof_char), bv(sizeof_char))
        jc.obligation(eng, pc, z3.And(bv(ln) == want_len, bv(size) == want_size), ext, label=label,
                      what='length prefix decoded differently from AOSP decodeLength')
    eng.partition_guard()


def job_decode(jc, utf8):
    """getString on a pool whose one string has symbolic length prefixes (every 1- and 2-unit form) over a zero-filled
    buffer, so that every declared length up to the bound is well formed: the result must be that many NUL characters
    (the prefixes are skipped by their own widths, the terminator is found behind the data)"""
    axml = setup()
    MAXLEN = 140
    bs = [fresh_byte('p%d' % i) for i in range(4)]
    buf = bs + [0] * (2 * MAXLEN + 8)
    if utf8:
        two0 = (bs[0].e & 0x80) != 0
        n16 = z3.If(two0, ((bs[0].e & 0x7f) << 8) | bs[1].e, bs[0].e)
        b2 = z3.If(two0, bs[2].e, bs[1].e)
        b3 = z3.If(two0, bs[3].e, bs[2].e)
        two1 = (b2 & 0x80) != 0
        n8 = z3.If(two1, ((b2 & 0x7f) << 8) | b3, b2)
        want_len = n8
        pre = [n8 <= MAXLEN, n16 <= MAXLEN, z3.Implies(z3.Not(two0), z3.Implies(z3.Not(two1), bs[2].e == 0)),
               z3.Implies(z3.And(z3.Not(two0), z3.Not(two1)), bs[3].e == 0), z3.Implies(z3.Not(two0), z3.Implies(two1, bs[3].e == 0)),
               z3.Implies(two0, z3.Implies(z3.Not(two1), bs[3].e == 0))]
    else:
        u0 = bs[0].e | (bs[1].e << 8)
        u1 = bs[2].e | (bs[3].e << 8)
        two0 = (u0 & 0x8000) != 0
        want_len = z3.If(two0, ((u0 & 0x7fff) << 16) | u1, u0)
        pre = [want_len <= MAXLEN, z3.Implies(z3.Not(two0), u1 == 0)]
    eng = jc.new_engine(pre=pre)
    label = 'getString with symbolic %s length prefixes' % ('UTF-8' if utf8 else 'UTF-16')
    sb = axml.StringBlock.__new__(axml.StringBlock)

    def go():
        sb._cache = {}
        sb.m_isUTF8 = utf8
        sb.stringCount = 1
        sb.m_stringOffsets = [0]
        sb.m_charbuff = SBytes(buf)
        r = sb.getString(0)
        return len(r), r

    def ext(m):
        return dict(kind='decode', utf8=utf8, prefix=mbytes(m, bs).hex(), size=len(buf))
    for pc, (k, r) in eng.explore(go, keep_pcs=True):
        jc.reached('decode')
        if k == 'exc':
            jc.obligation(eng, pc, z3.BoolVal(False), ext, label=label, what='raised %r' % (r,))
            continue
        ln, text = r
        zeros = z3.BoolVal(set(text) <= {'\x00'}) if isinstance(text, str) else z3.And([cpt(x) == 0 for x in text.c] + [z3.BoolVal(True)])
        jc.obligation(eng, pc, z3.And(bv(ln) == want_len, zeros), ext, label=label,
                      what='string with these length prefixes is not returned whole')
    eng.partition_guard()
    jc.sample(dict(case=label, paths=eng.st.paths), limit=4)


# ------------------------------------------------------------------ string content
U8_LAYOUTS = [(1,), (2,), (3,), (4,), (1, 1), (2, 1), (1, 3), (3, 2), (1, 1, 1)]
U16_LAYOUTS = [(1,), (1, 1), (2,), (1, 2), (2, 1), (1, 1, 1)]


def u8_seq(bs, n):
    """(z3 precondition, code point term) of one n-byte UTF-8 sequence over SInt bytes bs"""
    e = [b.e for b in bs]
    cont = [z3.And(x >= 0x80, x <= 0xBF) for x in e[1:]]
    if n == 1:
        return e[0] < 0x80, e[0]
    if n == 2:
        return z3.And(e[0] >= 0xC2, e[0] <= 0xDF, *cont), ((e[0] & 0x1F) << 6) | (e[1] & 0x3F)
    if n == 3:
        v = ((e[0] & 0x0F) << 12) | ((e[1] & 0x3F) << 6) | (e[2] & 0x3F)
        return z3.And(e[0] >= 0xE0, e[0] <= 0xEF, v >= 0x800, z3.Not(z3.And(v >= 0xD800, v <= 0xDFFF)), *cont), v
    v = ((e[0] & 0x07) << 18) | ((e[1] & 0x3F) << 12) | ((e[2] & 0x3F) << 6) | (e[3] & 0x3F)
    return z3.And(e[0] >= 0xF0, e[0] <= 0xF4, v >= 0x10000, v <= 0x10FFFF, *cont), v


def ref_decode(raw, utf8):
    """concrete reference decoders for the replay (independent of bytes.decode)"""
    out = []
    i = 0
    if utf8:
        while i < len(raw):
            b = raw[i]
            n = 1 if b < 0x80 else 2 if b < 0xE0 else 3 if b < 0xF0 else 4
            v = b if n == 1 else b & (0x1F if n == 2 else 0x0F if n == 3 else 0x07)
            for k in range(1, n):
                v = (v << 6) | (raw[i + k] & 0x3F)
            out.append(v)
            i += n
    else:
        while i < len(raw):
            u = raw[i] | (raw[i + 1] << 8)
            i += 2
            if 0xD800 <= u <= 0xDBFF:
                lo = raw[i] | (raw[i + 1] << 8)
                i += 2
                u = 0x10000 + ((u - 0xD800) << 10) + (lo - 0xDC00)
            out.append(u)
    return ''.join(map(chr, out))


CONTENT_DOCS = {
    'value': lambda s, utf8: dict(utf8=utf8, namespaces=[('android', A)], resids={}, root=E('r', [S('k', s)], [E('c')])),
    'text': lambda s, utf8: dict(utf8=utf8, namespaces=[], resids={}, root=E('r', [], [E('c', [], [s])])),
    'name': lambda s, utf8: dict(utf8=utf8, namespaces=[('android', A)], resids={}, root=E('r', [], [E(s, [V(s, 0x10, 5)], ns=A)])),
}


def xml_char(c):
    return z3.Or(c == 9, c == 10, c == 13, z3.And(c >= 0x20, c <= 0xD7FF), z3.And(c >= 0xE000, c <= 0xFFFD),
                 z3.And(c >= 0x10000, c <= 0x10FFFF))


def job_content(jc, where, utf8, layout):
    axml = setup()
    sysnames = system_attr_names()
    # placeholder string of the right encoded size; its bytes are then made symbolic
    units = {1: 'a', 2: 'é', 3: '中', 4: '\U0001F600'} if utf8 else {1: 'a', 2: '\U0001F600'}
    ph = ''.join(units[n] for n in layout)
    doc = CONTENT_DOCS[where](ph, utf8)
    blob, L = axmlw.write(doc)
    D = index_doc(doc, L)
    i = L.pool.index(ph)
    enc = axmlw.encode_string(ph, utf8)
    start = L.string_data_at + L.string_off[i] + (2 if utf8 else 2)
    nbytes = len(ph.encode('utf-8')) if utf8 else 2 * sum(layout)
    assert blob[start:start + nbytes] == (ph.encode('utf-8') if utf8 else ph.encode('utf-16-le')), 'layout'
    items = list(blob)
    bs = [fresh_byte('s%d' % k) for k in range(nbytes)]
    items[start:start + nbytes] = bs
    pre, cps = [], []
    o = 0
    for n in layout:
        if utf8:
            p, v = u8_seq(bs[o:o + n], n)
            o += n
        else:
            u = [bs[o + 2 * k].e | (bs[o + 2 * k + 1].e << 8) for k in range(n)]
            o += 2 * n
            if n == 1:
                p, v = z3.Not(z3.And(u[0] >= 0xD800, u[0] <= 0xDFFF)), u[0]
            else:
                p = z3.And(u[0] >= 0xD800, u[0] <= 0xDBFF, u[1] >= 0xDC00, u[1] <= 0xDFFF)
                v = 0x10000 + ((u[0] - 0xD800) << 10) + (u[1] - 0xDC00)
        pre.append(p)
        cps.append(v)
    if where == 'name':
        for k, v in enumerate(cps):
            ok = z3.Or(z3.And(v >= 65, v <= 90), z3.And(v >= 97, v <= 122), v == 95)
            if k:
                ok = z3.Or(ok, z3.And(v >= 48, v <= 57), v == 45, v == 46)
            pre.append(ok)
    else:
        pre += [xml_char(v) for v in cps]          # characters XML can carry (the others cannot be printed at all)
    D['strings'][i] = SStr([SInt(z3.simplify(v), 0, 0x10FFFF) for v in cps])
    eng = jc.new_engine(pre=pre)
    label = 'content of %s, %s layout %s' % (where, 'UTF-8' if utf8 else 'UTF-16', list(layout))

    def go():
        p = axml.AXMLPrinter(SBytes(items))
        return p.is_valid(), plain(p.root) if p.root is not None else None

    def ext(m):
        return dict(kind='content', where=where, utf8=utf8, layout=list(layout), raw=mbytes(m, bs).hex(), blob=mbytes(m, items).hex())
    exp = ref_tree(D, sysnames)
    for pc, (k, r) in eng.explore(go, keep_pcs=True):
        jc.reached('content')
        if k == 'exc':
            jc.obligation(eng, pc, z3.BoolVal(False), ext, label=label, what='printer raised %r' % (r,))
            continue
        valid, obs = r
        if not valid or obs is None:
            jc.obligation(eng, pc, z3.BoolVal(False), ext, label=label, what='well-formed document rejected')
            continue
        jc.obligation(eng, pc, t_eq(obs, exp), ext, label=label, what='string content not carried into the tree')
    eng.partition_guard()
    jc.sample(dict(case=label, paths=eng.st.paths), limit=6)


# ------------------------------------------------------------------ driver
def run(ctx):
    setup()
    ctx.functions_encoded = FUNCS
    ndocs = 6 if not ctx.thorough else 24
    docs = templates(ctx.seed, ndocs)
    jobs = [('length', 1), ('length', 2), ('decode', True), ('decode', False)]
    rnd = random.Random(ctx.seed)
    ngroups = 0
    for ti, doc in enumerate(docs):
        blob, L = axmlw.write(doc)
        D = index_doc(doc, L)
        gs = groups_of(doc, D, L, True)
        pick = list(range(len(gs)))
        if not ctx.thorough and len(pick) > 14:
            # quick tier: the meta group plus a seeded sample of the others, every kind of group at least once over the run
            rest = pick[1:]
            rnd.shuffle(rest)
            pick = [0] + sorted(rest[:13])
        for gi in pick:
            jobs.append(('fields', ti, doc, gi))
            ngroups += 1
    for where in ('value', 'text', 'name'):
        for utf8 in (True, False):
            for layout in (U8_LAYOUTS if utf8 else U16_LAYOUTS):
                if where == 'name' and any(n > 1 for n in layout):
                    continue
                if not ctx.thorough and len(layout) > 2:
                    continue
                jobs.append(('content', where, utf8, layout))
    ctx.bounds = dict(documents=len(docs), field_groups=ngroups, elements_per_document='<= 8', pool='<= 30 strings',
                      symbolic_per_run='one group: 1-3 fields (indices over every well-formed value; attribute type over the 13 '
                      'AOSP value types x all 2^32 data words; free fields over their full width)',
                      content='one pool string of 1-3 characters: UTF-8 sequences of 1-4 bytes, UTF-16 units and surrogate pairs')
    ctx.stubs = ['SymStruct / SymIO', 'lxml.etree replaced by a storing stand-in (vf/fetree.py); replay uses the real lxml',
                 'SymRe for the name / value regular expressions', 'format markers for rendered numbers (as in C27)']
    ctx.assumptions = ['well-formed documents: names are ASCII XML names, references point to strings of the right kind, '
                       'string-typed attributes have rawValue == data, an attribute name covered by the resource map agrees with '
                       'its id, characters are XML Chars, valid UTF-8 / paired surrogates',
                       'typed values are judged by the C27 oracle (AOSP renderings)',
                       'text chunks after a child element belong after that child (tail), consecutive chunks concatenate']
    ctx.outside_claim = ['several groups symbolic at once', 'documents beyond the templates', 'style spans in the pool',
                         'supplementary characters in UTF-8 pools written as CESU-8 surrogate pairs (aapt2 modified UTF-8)',
                         'get_xml serialisation (lxml)']
    cases = [dict(kind='diff', doc=d) for d in docs[:4]]
    ctx.diff_unhooked(sys.modules[__name__], cases)
    ctx.pmap(job, jobs)


def _real_tree(blob):
    from androguard.core.axml import AXMLPrinter
    p = AXMLPrinter(blob)
    if p.root is None:
        return p.is_valid(), None
    return p.is_valid(), (plain(p.root) if hasattr(p.root, 'kids') else from_lxml(p.root))


def concrete(c):
    blob, L = axmlw.write(c['doc'])
    return _real_tree(blob)


def replay(w):
    from androguard.core.resources import public
    sysnames = public.SYSTEM_RESOURCES['attributes']['inverse']
    if w['kind'] == 'length':
        from androguard.core.axml import StringBlock
        sb = StringBlock.__new__(StringBlock)
        sb.m_charbuff = bytes.fromhex(w['bytes'])
        b = sb.m_charbuff
        sc = w['sizeof_char']
        u0, u1 = (b[0], b[1]) if sc == 1 else (b[0] | b[1] << 8, b[2] | b[3] << 8)
        hi, bits = (0x80, 8) if sc == 1 else (0x8000, 16)
        want = (((u0 & (hi - 1)) << bits) | u1, 2 * sc) if u0 & hi else (u0, sc)
        try:
            got = sb._decode_length(0, sc)
        except BaseException as e:
            return True, 'length bytes %s: raised %r' % (w['bytes'], e)
        return tuple(got) != want, 'length bytes %s: decoded %r, AOSP gives %r' % (w['bytes'], got, want)
    if w['kind'] == 'decode':
        from androguard.core.axml import StringBlock
        sb = StringBlock.__new__(StringBlock)
        sb._cache, sb.m_isUTF8, sb.stringCount, sb.m_stringOffsets = {}, w['utf8'], 1, [0]
        p = bytes.fromhex(w['prefix'])
        sb.m_charbuff = p + bytes(w['size'] - 4)
        if w['utf8']:
            o = 2 if p[0] & 0x80 else 1
            n = (((p[o] & 0x7f) << 8) | p[o + 1]) if p[o] & 0x80 else p[o]
        else:
            u0, u1 = p[0] | p[1] << 8, p[2] | p[3] << 8
            n = (((u0 & 0x7fff) << 16) | u1) if u0 & 0x8000 else u0
        try:
            got = sb.getString(0)
        except BaseException as e:
            return True, 'prefix %s: raised %r' % (w['prefix'], e)
        return got != '\x00' * n, 'length prefixes %s declare %d characters, getString returned %d' % (w['prefix'], n, len(got))
    blob = bytes.fromhex(w['blob'])
    try:
        valid, obs = _real_tree(blob)
    except Exception as e:
        return True, 'printer raised %r' % (e,)
    if w['kind'] == 'content':
        units = {1: 'a', 2: 'é', 3: '中', 4: '\U0001F600'} if w['utf8'] else {1: 'a', 2: '\U0001F600'}
        ph = ''.join(units[n] for n in w['layout'])
        doc = CONTENT_DOCS[w['where']](ph, w['utf8'])
        _, L = axmlw.write(doc)
        D = index_doc(doc, L)
        D['strings'][L.pool.index(ph)] = ref_decode(bytes.fromhex(w['raw']), w['utf8'])
    else:
        doc = w['doc']
        _, L = axmlw.write(doc)
        D = index_doc(doc, L)
        D['_offs'] = list(L.string_off)
        for f, v in w['fields'].items():
            if f.split('.')[-1] in ('line', 'end_line', 'id_index', 'class_index', 'style_index', 'typed', 'raw'):
                continue
            D = apply_field(D, f, v)
    exp = ref_tree(D, sysnames)
    if not valid or obs is None:
        return True, 'well-formed document rejected'
    ok = z3.is_true(z3.simplify(t_eq(obs, exp)))
    return (not ok), 'printed tree %r, the document encodes %r' % (obs, exp)
