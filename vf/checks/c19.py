"""C19: see vf/graphs.py (enumeration of all small digraphs through the real Graph algorithms)."""
from .. import graphs


def run(ctx):
    graphs.run(ctx, 'C19')


concrete = graphs.concrete
replay = graphs.replay
