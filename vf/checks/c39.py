"""C39 API-level fallback: load_api_specific_resource_module / load_permissions / load_permission_mappings with the API
level symbolic (int over +-2^100 and decimal strings), filesystem answers derived from the levels really shipped."""
import os
import re
import sys
import z3
from ..engine import *
from ..sstr import SStr, fresh_char, cpt, sx_str
from ..sfmt import parse_markers, has_marker
from .. import common, hook

FUNCS = ['androguard.core.androconf.load_api_specific_resource_module',
         'androguard.core.api_specific_resources.load_permissions', 'load_permission_mappings']
DIRS = ('aosp_permissions', 'api_permission_mappings')


def shipped_levels():
    root = os.path.join(common.REPO, 'androguard/core/api_specific_resources')
    return {d: sorted(int(x[:-5].split('_')[1]) for x in os.listdir(os.path.join(root, d))
                      if re.match(r'^permissions_[0-9]+\.json$', x)) for d in DIRS}


def rule(resource, level, levels, default):
    """documented rule (concrete reference): which shipped level's file must be loaded"""
    lv = levels[resource]
    if resource == 'aosp_permissions':
        if level in lv:
            return level
        if level < lv[0]:
            return lv[0]
        if level > lv[-1]:
            return lv[-1]
        return max(l for l in lv if l < level)
    return level if level in lv else default


def setup():
    hook.install(symkeys=('androguard.core.androconf', 'androguard.core.api_specific_resources'))
    from androguard.core import api_specific_resources as R
    from androguard.core import androconf
    R.logger = NullLogger()
    androconf.logger = NullLogger()
    androconf.isinstance = sx_isinstance
    R.isinstance = sx_isinstance
    androconf.int = sx_int
    androconf.str = sx_str
    hook.track_sets(androconf)
    hook.track_sets(R)
    LV = shipped_levels()

    def which_dir(text):
        return DIRS[0] if DIRS[0] in text else DIRS[1]

    class P:
        dirname = staticmethod(os.path.dirname)
        realpath = staticmethod(os.path.realpath)

        @staticmethod
        def join(*a):
            if any(isinstance(x, SStr) for x in a):
                out = SStr([])
                for i, x in enumerate(a):
                    out = out + ('/' if i else '') + x
                return out
            return os.path.join(*a)

        @staticmethod
        def isfile(p):
            if isinstance(p, SStr):
                head = ''.join(chr(x) for x in p.c if isinstance(x, int))
                d = which_dir(head)
                alts = []
                for l in LV[d]:
                    tail = 'permissions_%d.json' % l
                    if len(tail) <= len(p):
                        alts.append(z3.And(SStr(p.c[len(p) - len(tail):]).eq_term(tail),
                                           cpt(p.c[len(p) - len(tail) - 1]) == 47))
                return bool(SBool(z3.Or(alts + [z3.BoolVal(False)])))
            if not has_marker(p):
                return os.path.isfile(p)
            parts = parse_markers(p)
            d = which_dir(parts[0][1])
            return bool(SBool(z3.Or([parts[1][1] == l for l in LV[d]])))

    class FOS:
        path = P
        listdir = staticmethod(os.listdir)

    class Tok:
        def __init__(self, p): self.p = p
        def __enter__(self): return self
        def __exit__(self, *a): return False

    class FJ:
        @staticmethod
        def load(fp):
            p = fp.p
            if isinstance(p, SStr):
                head = ''.join(chr(x) for x in p.c if isinstance(x, int))
                d = which_dir(head)
                for l in LV[d]:
                    tail = '/permissions_%d.json' % l
                    if len(tail) <= len(p) and bool(SBool(SStr(p.c[len(p) - len(tail):]).eq_term(tail))):
                        lvl = bv(l)
                        break
                else:
                    raise FileNotFoundError('no such file')
            elif has_marker(p):
                parts = parse_markers(p)
                d = which_dir(parts[0][1])
                lvl = parts[1][1]
            else:
                d = which_dir(p)
                lvl = bv(int(re.search(r'permissions_(\d+)\.json', p).group(1)))
            tok = (d, lvl)
            return {'permissions': tok, 'groups': tok} if d == DIRS[0] else tok
    R.os = FOS
    R.open = lambda p, mode='r': Tok(p)
    R.json = FJ
    R.int = sx_int
    R.str = sx_str
    return R, androconf, LV


def run(ctx):
    R, androconf, LV = setup()
    default = androconf.CONF['DEFAULT_API']
    ctx.functions_encoded = FUNCS
    ctx.bounds = dict(int_level='every integer with |level| <= 2^100', string_level='decimal strings of 1..3 digits and '
                      '-d / -dd', shipped_levels=LV, default_level=default)
    ctx.stubs = ['os.listdir real (levels shipped in the tree); os.path.isfile answers from the symbolic level vs the shipped '
                 'level list', 'open / json.load return a token naming directory and level actually opened', 'int() shim',
                 'NullLogger']
    ctx.assumptions = ['rule: exact level if shipped; else highest shipped level below; below the range -> lowest; above -> '
                       'highest; mappings -> the default level when the requested one is not shipped',
                       'api=None and api="" mean "not given" (default level)']
    ctx.outside_claim = ['contents of the JSON files', 'non-canonical decimal strings (leading zeros)', 'string forms with whitespace, underscores or non-ASCII digits']
    cases = [[r, a] for r in DIRS for a in (None, '', 0, '0', 3, 4, 11, '12', 16, '16', 20, 36, 37, 100, -5, '-5', 1 << 70)]
    ctx.diff_unhooked(sys.modules[__name__], cases)

    def expect(resource, a):
        lv = LV[resource]
        if resource == DIRS[0]:
            e = bv(lv[0])
            for l in lv:
                e = z3.If(a >= l, bv(l), e)
            return e
        return z3.If(z3.Or([a == l for l in lv]), a, bv(default))

    def judge(eng, resource, a_term, val, pc, ext, label, regions):
        ok = isinstance(val, tuple) and len(val) == 2 and val[0] == resource
        ob = z3.And(z3.BoolVal(ok), val[1] == expect(resource, a_term)) if ok else z3.BoolVal(False)
        ctx.obligation(eng, pc, ob, ext, regions, label=label,
                       what='loaded level differs from the documented fallback rule')

    # ---- integer levels
    API = SInt(z3.BitVec('api', W), -(1 << 100), 1 << 100)
    for resource in DIRS:
        label = resource + ' int'
        eng = ctx.new_engine(pre=[API.e >= -(1 << 100), API.e <= (1 << 100)])
        regions = {'c39_zero': API.e == 0}
        for pc, (kind, val) in eng.explore(lambda: androconf.load_api_specific_resource_module(resource, API), keep_pcs=True):
            ctx.reached(label)
            ext = lambda m, resource=resource: dict(resource=resource, api=mval(m, API), as_string=False)
            if kind == 'exc':
                ctx.obligation(eng, pc, z3.BoolVal(False), ext, regions, label=label, what='raised %r' % (val,))
                continue
            judge(eng, resource, API.e, val, pc, ext, label, regions)
            ctx.sample(dict(resource=resource, form='int', path_decisions=len(pc)))
        eng.partition_guard()
    # ---- two requests for the same level in one process, in both orders (the answer to the second must not depend on
    # what the first one found)
    for first, second in ((DIRS[1], DIRS[0]), (DIRS[0], DIRS[1])):
        label = 'sequence %s then %s, int' % (first, second)
        eng = ctx.new_engine(pre=[API.e >= -(1 << 100), API.e <= (1 << 100)])
        regions = {'c39_zero': API.e == 0}

        def both():
            return (androconf.load_api_specific_resource_module(first, API), androconf.load_api_specific_resource_module(second, API))
        for pc, (kind, val) in eng.explore(both, keep_pcs=True):
            ctx.reached(label)
            ext = lambda m, first=first, second=second: dict(resource=second, api=mval(m, API), as_string=False, before=first)
            if kind == 'exc':
                ctx.obligation(eng, pc, z3.BoolVal(False), ext, regions, label=label, what='raised %r' % (val,))
                continue
            judge(eng, first, API.e, val[0], pc, lambda m, first=first: dict(resource=first, api=mval(m, API), as_string=False), label, regions)
            judge(eng, second, API.e, val[1], pc, ext, label, regions)
        eng.partition_guard()
    # ---- decimal strings
    forms = [(False, 1), (False, 2), (False, 3), (True, 1), (True, 2)]
    for resource in DIRS:
        for neg, nd in forms:
            digits = [fresh_char('d%d' % i, 8) for i in range(nd)]
            pre = [z3.And(d.e >= 48, d.e <= 57) for d in digits]
            if nd > 1 or neg:
                pre.append(digits[0].e != 48)        # canonical decimal form str(level): no leading zeros, no '-0'
            s = SStr(([45] if neg else []) + digits)
            val_term = z3.BitVecVal(0, W)
            for d in digits:
                val_term = val_term * 10 + (d.e - 48)
            if neg:
                val_term = -val_term
            label = '%s str %s%s' % (resource, '-' if neg else '', 'd' * nd)
            eng = ctx.new_engine(pre=pre)
            regions = {}
            for pc, (kind, val) in eng.explore(lambda: androconf.load_api_specific_resource_module(resource, s), keep_pcs=True):
                ctx.reached(label)
                ext = lambda m, resource=resource, s=s: dict(resource=resource, api=s.concrete(m), as_string=True)
                if kind == 'exc':
                    ctx.obligation(eng, pc, z3.BoolVal(False), ext, regions, label=label, what='raised %r' % (val,))
                    continue
                judge(eng, resource, val_term, val, pc, ext, label, regions)
            eng.partition_guard()


def _load(resource, api):
    """run the real functions with open/json.load replaced by a token recorder (works hooked and unhooked)"""
    from androguard.core import api_specific_resources as R
    from androguard.core import androconf
    opened = []
    if getattr(R, 'json').__name__ == 'FJ':
        r = androconf.load_api_specific_resource_module(resource, api)
        return [r[0], r[1].as_signed_long() if hasattr(r[1], 'as_signed_long') else z3.simplify(r[1]).as_signed_long()]

    class Tok:
        def __init__(self, p): self.p = p
        def __enter__(self): return self
        def __exit__(self, *a): return False

    class FJ2:
        @staticmethod
        def load(fp):
            d = DIRS[0] if DIRS[0] in fp.p else DIRS[1]
            tok = (d, int(re.search(r'permissions_(-?\d+)\.json', fp.p).group(1)))
            return {'permissions': tok, 'groups': tok} if d == DIRS[0] else tok
    so, sj = getattr(R, 'open', None), R.json
    R.open = lambda p, mode='r': Tok(p)
    R.json = FJ2
    try:
        r = androconf.load_api_specific_resource_module(resource, api)
    finally:
        R.json = sj
        if so is None:
            del R.open
        else:
            R.open = so
    return list(r)


def concrete(c):
    return _load(c[0], c[1])


def replay(w):
    LV = shipped_levels()
    from androguard.core import androconf
    default = androconf.CONF['DEFAULT_API']
    api = w['api']
    try:
        if w.get('before'):
            _load(w['before'], api)              # the earlier request of the same process
        got = _load(w['resource'], api)
    except Exception as e:
        return True, '%s api=%r raised %r' % (w['resource'], api, e)
    exp = [w['resource'], rule(w['resource'], int(api), LV, default)]
    return got != exp, 'load_api_specific_resource_module(%r, %r)%s opened %r, rule says %r' % (
        w['resource'], api, (' after a request for %r' % w['before']) if w.get('before') else '', got, exp)
