"""C03 LEB128: readuleb128 / readuleb128p1 / readsleb128 / writeuleb128 / writesleb128 vs the DEX definition."""
import z3
from ..engine import *
from .. import common, hook

FUNCS = ['androguard.core.dex.readuleb128', 'readuleb128p1', 'readsleb128', 'writeuleb128', 'writesleb128',
         'get_byte', 'DalvikPacker.__getitem__']


# ---------------------------------------------------------------- concrete reference (spec)
def ref_uleb(bs):
    """(value, consumed) of the ULEB128 at the start of bs per the DEX spec, or None if not terminated in 5"""
    v = 0
    for i, b in enumerate(bs[:5]):
        v |= (b & 0x7f) << (7 * i)
        if not b & 0x80:
            return v, i + 1
    return None


def ref_sleb(bs):
    r = ref_uleb(bs)
    if r is None:
        return None
    v, n = r
    bits = 7 * n
    if n == 5:
        v &= 0xFFFFFFFF
        bits = 32
    if v & (1 << (bits - 1)):
        v -= 1 << bits
    return v, n


def ref_enc_uleb(v):
    out = []
    while True:
        b = v & 0x7f
        v >>= 7
        if v:
            out.append(b | 0x80)
        else:
            out.append(b)
            return bytes(out)


def ref_enc_sleb(v):
    out = []
    while True:
        b = v & 0x7f
        v >>= 7
        if (v == 0 and not b & 0x40) or (v == -1 and b & 0x40):
            out.append(b)
            return bytes(out)
        out.append(b | 0x80)


# ---------------------------------------------------------------- symbolic reference
def z_len(B):
    """number of bytes consumed, as z3 term (6 = not terminated within five)"""
    e = z3.BitVecVal(6, W)
    for i in range(4, -1, -1):
        e = z3.If(B[i].e < 0x80, z3.BitVecVal(i + 1, W), e)
    return e


def z_uleb(B):
    e = None
    acc = z3.BitVecVal(0, W)
    accs = []
    for i in range(5):
        acc = acc | ((B[i].e & 0x7f) << (7 * i))
        accs.append(acc)
    e = accs[4]
    for i in range(3, -1, -1):
        e = z3.If(B[i].e < 0x80, accs[i], e)
    return e


def z_sleb(B):
    n = z_len(B)
    u = z_uleb(B)
    e = None
    outs = []
    for k in range(1, 6):
        bits = 32 if k == 5 else 7 * k
        v = u & ((1 << bits) - 1)
        outs.append(z3.If((v >> (bits - 1)) & 1 == 1, v - (1 << bits), v))
    e = outs[4]
    for k in range(4, 0, -1):
        e = z3.If(n == k, outs[k - 1], e)
    return e


def run(ctx):
    # dictionaries of the module keyed by a symbolic value are compared with == (side table per path), not hashed
    hook.install(symkeys=('androguard.core.dex',))
    dex = common.dexmod()
    cm = common.SymCM(dex)
    ctx.functions_encoded = FUNCS
    ctx.bounds = dict(read='all 2^40 five-byte prefixes (decoding never looks further)',
                      write='all 2^32 values (uleb, uleb128p1 on [-1,2^32-2], sleb signed 32-bit)')
    ctx.stubs = ['SymStruct for struct.Struct', 'SymIO for io.BytesIO', 'NullLogger',
                 'writers: the other writer is called with the same value first (history)']
    ctx.outside_claim = ['uleb128 whose 5th byte has bits above 0x0f, sleb128 whose 5th byte is not a sign '
                         'extension (payload does not fit 32 bits): behaviour reported as information only',
                         'sequences of more than five bytes']
    ctx.assumptions = ['domain: terminated LEB128 sequences of 1..5 bytes whose payload fits 32 bits '
                       '(over-long zero/sign padded encodings included; for sleb128 the three unused bits of a 5th '
                       'byte may be the sign extension or zero)']
    B = [fresh_byte('b%d' % i) for i in range(5)]
    buf = SBytes(B + [0x5a])       # one guard byte that must never be consumed
    n = z_len(B)
    dom_u = z3.And(n <= 5, z3.Implies(n == 5, B[4].e <= 0x0f))
    sx5 = z3.If((B[4].e >> 3) & 1 == 1, (B[4].e & 0x70) == 0x70, (B[4].e & 0x70) == 0)
    # 5th byte of a signed value: its low four bits are bits 28..31; the three unused bits are either the sign
    # extension (padded canonical form) or zero (the 32-bit pattern written without extension, which AOSP's
    # readSignedLeb128 also reads as that 32-bit value)
    dom_s = z3.And(n <= 5, z3.Implies(n == 5, z3.Or(sx5, (B[4].e & 0x70) == 0)))

    def ex(m):
        return dict(kind='read', bytes=mbytes(m, B).hex())

    # --- Serval-style validation: same concrete inputs through hooked and unhooked module
    import random
    import sys
    rnd = random.Random(ctx.seed)
    vals = [0, 1, 0x7f, 0x80, 0x3fff, 0x4000, 0x1fffff, 0x200000, 0xfffffff, 0x10000000, 0x7fffffff,
            0x80000000, 0xffffffff] + [rnd.getrandbits(32) for _ in range(50)]
    cases = [dict(op='w', value=v) for v in vals] + [dict(op='r', bytes=rnd.randbytes(6).hex()) for _ in range(60)]
    ctx.diff_unhooked(sys.modules[__name__], cases)

    # --- readers
    for name, fn, dom, ref, off in [('readuleb128', dex.readuleb128, dom_u, z_uleb(B), 0),
                                    ('readuleb128p1', dex.readuleb128p1, dom_u, z_uleb(B) - 1, 0),
                                    ('readsleb128', dex.readsleb128, dom_s, z_sleb(B), 0)]:
        eng = ctx.new_engine(pre=[dom])

        def go():
            f = dex.io.BytesIO(buf)
            r = fn(cm, f)
            return r, f.tell()
        for pc, (kind, val) in eng.explore(go, keep_pcs=True):
            ctx.reached(name)
            if kind == 'exc':
                ctx.obligation(eng, pc, z3.BoolVal(False), lambda m: dict(ex(m), fn=name),
                               label=name, what='raised %r' % val)
                continue
            r, pos = val
            ob = z3.And(bv(r) == ref, bv(pos) == n)
            ctx.obligation(eng, pc, ob, lambda m: dict(ex(m), fn=name), label=name,
                           what='decoded value or consumed length differs from the DEX definition')
            ctx.sample(dict(fn=name, path_condition=str(z3.simplify(z3.And(pc[1:])))[:200] if len(pc) > 1 else 'true'))
        eng.partition_guard()
        # information only: outside-domain behaviour
        eng2 = ctx.new_engine(pre=[z3.Not(dom), n <= 5])
        bad = 0
        for pc, (kind, val) in eng2.explore(go):
            if kind == 'ok' and eng2.solve(pc, [bv(val[0]) != ref]) is not None:
                bad += 1
        ctx.info.setdefault('outside_domain_paths_differing_from_truncating_reference', {})[name] = bad

    # --- writers: canonical encoding and round trip
    V = fresh_uint('v', 32)
    SV = fresh_sint('sv', 32)

    class SBA(SBytes):
        def __iadd__(self, o):
            return SBA(self.items + list(o))
    saved = dex.bytearray
    dex.bytearray = lambda *a: SBA([]) if not a else saved(*a)
    try:
        for name, val, writer, reader, refenc, other in [
                ('uleb_roundtrip', V, dex.writeuleb128, dex.readuleb128, 'u', dex.writesleb128),
                ('uleb128p1_roundtrip', V, dex.writeuleb128, dex.readuleb128p1, 'p1', dex.writesleb128),
                ('sleb_roundtrip', SV, dex.writesleb128, dex.readsleb128, 's', dex.writeuleb128)]:
            eng = ctx.new_engine()

            def go2():
                # history: the other writer was asked for the same number before (replays do the same)
                try:
                    other(cm, val)
                except ValueError:
                    pass
                enc = writer(cm, val)
                f = dex.io.BytesIO(SBytes(list(enc)))
                r = reader(cm, f)
                return enc, r, f.tell()
            for pc, (kind, res) in eng.explore(go2, keep_pcs=True):
                ctx.reached(name)
                exw = lambda m, name=name, val=val: dict(kind='write', fn=name, value=mval(m, val))
                if kind == 'exc':
                    ctx.obligation(eng, pc, z3.BoolVal(False), exw, label=name, what='raised %r' % res)
                    continue
                enc, r, pos = res
                L = len(enc)
                want = val.e - 1 if refenc == 'p1' else val.e
                obs = [bv(r) == want, bv(pos) == L, z3.BoolVal(1 <= L <= 5)]
                # canonical: every byte but the last has the high bit, payload groups equal value bits
                for i, b in enumerate(enc):
                    obs.append((bv(b) & 0x7f) == ((val.e >> (7 * i)) & 0x7f))
                    obs.append(((bv(b) >> 7) & 1) == (1 if i < L - 1 else 0))
                # minimal length
                if refenc in ('u', 'p1'):
                    obs.append(z3.BoolVal(True) if L == 1 else val.e >= (1 << (7 * (L - 1))))
                else:
                    if L > 1:
                        lo = -(1 << (7 * (L - 1) - 1))
                        hi = (1 << (7 * (L - 1) - 1)) - 1
                        obs.append(z3.Or(val.e < lo, val.e > hi))
                ctx.obligation(eng, pc, z3.And(obs), exw, label=name,
                               what='write/read round trip or canonical encoding broken')
                ctx.sample(dict(fn=name, encoded_len=L))
            eng.partition_guard()
    finally:
        dex.bytearray = saved


def concrete(c):
    from androguard.core import dex
    cm = common.SymCM(dex)
    if c['op'] == 'w':
        v = c['value']
        sv = v - (1 << 32) if v >> 31 else v
        return [bytes(dex.writeuleb128(cm, v)).hex(), bytes(dex.writesleb128(cm, sv)).hex()]
    bs = bytes.fromhex(c['bytes'])
    out = []
    for fn in (dex.readuleb128, dex.readuleb128p1, dex.readsleb128):
        f = dex.io.BytesIO(bs)
        out.append([fn(cm, f), f.tell()])
    return out


def replay(w):
    from androguard.core import dex
    import io
    cm = common.SymCM(dex)
    if w['kind'] == 'read':
        bs = bytes.fromhex(w['bytes']) + b'\x5a'
        fn = getattr(dex, w['fn'])
        f = io.BytesIO(bs)
        try:
            got = (fn(cm, f), f.tell())
        except Exception as e:
            got = ('exc', repr(e))
        if w['fn'] == 'readsleb128':
            exp = ref_sleb(bs)
        else:
            v, n = ref_uleb(bs)
            exp = (v - 1 if w['fn'].endswith('p1') else v, n)
        return got != exp, 'bytes %s: %s returned %r, DEX definition gives %r' % (w['bytes'], w['fn'], got, exp)
    v = w['value']
    try:
        try:
            (dex.writeuleb128 if w['fn'] == 'sleb_roundtrip' else dex.writesleb128)(cm, v)     # the history of the run
        except ValueError:
            pass
        if w['fn'] == 'sleb_roundtrip':
            enc = bytes(dex.writesleb128(cm, v))
            got = (enc, dex.readsleb128(cm, io.BytesIO(enc)))
            exp = (ref_enc_sleb(v), v)
        elif w['fn'] == 'uleb_roundtrip':
            enc = bytes(dex.writeuleb128(cm, v))
            got = (enc, dex.readuleb128(cm, io.BytesIO(enc)))
            exp = (ref_enc_uleb(v), v)
        else:
            enc = bytes(dex.writeuleb128(cm, v))
            got = (enc, dex.readuleb128p1(cm, io.BytesIO(enc)))
            exp = (ref_enc_uleb(v), v - 1)
    except Exception as e:
        got, exp = ('exc', repr(e)), 'a value'
    return got != exp, 'value %d: got %r expected %r' % (v, got, exp)
