"""C04 encoded_value: width / signedness / index resolution of every value type, nested arrays and annotations,
and the field-initialiser text of DvClass.get_source."""
import sys
import z3
from ..engine import *
from ..sfmt import parse_markers
from .. import common, hook

FUNCS = ['androguard.core.dex.EncodedValue.__init__', 'EncodedValue._getintvalue', 'EncodedValue._sign_extend',
         'EncodedArray.__init__', 'EncodedAnnotation.__init__', 'AnnotationElement.__init__', 'readuleb128', 'get_byte',
         'ClassDataItem.set_static_fields', 'androguard.decompiler.decompile.DvClass.get_source (field block)']

V = dict(BYTE=0x00, SHORT=0x02, CHAR=0x03, INT=0x04, LONG=0x06, FLOAT=0x10, DOUBLE=0x11, METHOD_TYPE=0x15,
         METHOD_HANDLE=0x16, STRING=0x17, TYPE=0x18, FIELD=0x19, METHOD=0x1a, ENUM=0x1b, ARRAY=0x1c, ANNOTATION=0x1d,
         NULL=0x1e, BOOLEAN=0x1f)
MAXARG = {V['BYTE']: 0, V['SHORT']: 1, V['CHAR']: 1, V['INT']: 3, V['LONG']: 7, V['STRING']: 3, V['TYPE']: 3,
          V['FIELD']: 3, V['METHOD']: 3, V['ENUM']: 3, V['NULL']: 0, V['BOOLEAN']: 1}
SIGNED = (V['BYTE'], V['SHORT'], V['INT'], V['LONG'])
INDEXED = {V['STRING']: 'string', V['TYPE']: 'type', V['FIELD']: 'field', V['METHOD']: 'method', V['ENUM']: 'field'}


# ------------------------------------------------------------- concrete reference (spec)
def ref_scalar(bs):
    """(value, consumed) for a scalar encoded_value at bs[0:]; value is int, bool, None or ('kind', index)"""
    h = bs[0]
    t, a = h & 0x1f, h >> 5
    if t == V['NULL']:
        return None, 1
    if t == V['BOOLEAN']:
        return bool(a), 1
    n = a + 1
    raw = int.from_bytes(bs[1:1 + n], 'little')
    if t in SIGNED and raw >> (8 * n - 1):
        raw -= 1 << (8 * n)
    if t in INDEXED:
        return [INDEXED[t], raw], 1 + n
    return raw, 1 + n


class TagCM(common.SymCM):
    """pool lookups return tagged tuples so that the *index* is what is compared"""

    def get_raw_string(self, i): return ('string', i)
    def get_string(self, i): return ('string', i)
    def get_type(self, i): return ('type', i)
    def get_field(self, i): return ('field', i)
    def get_method(self, i): return ('method', i)


def z_sext(e, nbytes):
    bits = 8 * nbytes
    return z3.If((e >> (bits - 1)) & 1 == 1, e - (1 << bits), e)


class FieldStub:
    def __init__(self, name, proto, iv):
        self.name, self.proto, self.iv = name, proto, iv

    def get_name(self): return self.name
    def get_access_flags(self): return 0x8
    def get_descriptor(self): return self.proto
    def get_init_value(self): return self.iv


PROTO = {V['BYTE']: 'B', V['SHORT']: 'S', V['CHAR']: 'C', V['INT']: 'I', V['LONG']: 'J', V['BOOLEAN']: 'Z'}


def make_dvclass(decompile, fields):
    c = decompile.DvClass.__new__(decompile.DvClass)
    c.inner, c.package, c.superclass, c.prototype, c.interfaces = False, 'p', None, 'public class X', []
    c.fields, c.methods = fields, []
    return c


def run(ctx):
    dex = common.dexmod()
    from androguard.decompiler import decompile
    decompile.struct = SymStructModule
    decompile.hex = sx_hex
    decompile.str = lambda x='': x if isinstance(x, str) else (x.__str__() if isinstance(x, SInt) else str(x))
    cm = TagCM(dex)
    ctx.functions_encoded = FUNCS
    ctx.bounds = dict(scalar='header byte symbolic over every legal (type, value_arg) pair, payload bytes fully symbolic',
                      nested='array of 4 typed elements inside an annotation element inside an array (nesting depth 3), '
                             'array size byte symbolic in 0..4')
    ctx.stubs = ['SymStruct', 'SymIO', 'ClassManager pool lookups return (kind, index) tags', 'DvClass built with '
                 '__new__ around stub fields (the field block of get_source is the code under test)']
    ctx.outside_claim = ['VALUE_FLOAT / VALUE_DOUBLE (not listed by the property; the code has a TODO)',
                         'METHOD_TYPE / METHOD_HANDLE', 'illegal value_arg for a type']
    ctx.assumptions = ['boolean initialisers may print as Python True/False or Java true/false']
    ctx.expect_reach(['null', 'boolean', 'integer', 'nested'] + ['index:' + k for k in set(INDEXED.values())] +
                     ['printed:' + p for p in PROTO.values()])
    H = fresh_byte('hdr')
    P = [fresh_byte('p%d' % i) for i in range(8)]
    typ, arg = H.e & 0x1f, (H.e >> 5) & 7
    legal = z3.Or([z3.And(typ == t, arg <= m) for t, m in MAXARG.items()])
    buf = SBytes([H] + P + [0x5a])
    payload = z3.BitVecVal(0, W)
    for i in range(8):
        payload = payload | z3.If(arg >= i, P[i].e << (8 * i), z3.BitVecVal(0, W))
    sext = None
    for n in range(8, 0, -1):
        v = z_sext(payload, n)
        sext = v if sext is None else z3.If(arg == n - 1, v, sext)

    def ext(m):
        h = mval(m, H)
        return dict(kind='scalar', bytes=bytes([h] + [mval(m, p) for p in P]).hex())

    import random
    rnd = random.Random(ctx.seed)
    cases = []
    for t, mx in MAXARG.items():
        for a in range(mx + 1):
            for pat in (b'\xff' * 8, b'\x80' + b'\x00' * 7, b'\x7f' * 8, rnd.randbytes(8)):
                cases.append((bytes([t | a << 5]) + pat).hex())
    ctx.diff_unhooked(sys.modules[__name__], cases)

    regions = {'c04_no_sign_extension': z3.Or([typ == t for t in SIGNED])}
    eng = ctx.new_engine(pre=[legal])

    def go():
        f = dex.io.BytesIO(buf)
        ev = dex.EncodedValue(f, cm)
        out = dict(value=ev.get_value(), pos=f.tell(), vt=ev.get_value_type(), va=ev.get_value_arg())
        # decompiler text for the primitive types
        t = ev.get_value_type()
        for tt, proto in PROTO.items():
            if t == tt:
                c = make_dvclass(decompile, [FieldStub('f', proto, ev)])
                out['src'] = c.get_source()
                out['proto'] = proto
                break
        return out
    for pc, (kind, r) in eng.explore(go, keep_pcs=True):
        if kind == 'exc':
            ctx.obligation(eng, pc, z3.BoolVal(False), ext, regions, label='scalar', what='raised %r' % r)
            continue
        val = r['value']
        obs = {'type/arg': z3.And(bv(r['vt']) == typ, bv(r['va']) == arg)}
        consumed = z3.If(z3.Or(typ == V['NULL'], typ == V['BOOLEAN']), z3.BitVecVal(1, W), arg + 2)
        obs['consumed'] = bv(r['pos']) == consumed
        if val is None:
            obs['value'] = typ == V['NULL']
            ctx.reached('null')
        elif isinstance(val, bool):
            obs['value'] = z3.And(typ == V['BOOLEAN'], (arg != 0) == z3.BoolVal(val))
            ctx.reached('boolean')
        elif isinstance(val, tuple):
            want = z3.Or([z3.And(typ == t, z3.BoolVal(val[0] == k)) for t, k in INDEXED.items()])
            obs['value'] = z3.And(want, bv(val[1]) == payload)
            ctx.reached('index:' + val[0])
        elif isinstance(val, (int, SInt)):
            ref = z3.If(z3.Or([typ == t for t in SIGNED]), sext, payload)
            obs['value'] = z3.And(z3.Or([typ == t for t in SIGNED + (V['CHAR'],)]), bv(val) == ref)
            ctx.reached('integer')
        else:
            obs['value'] = z3.BoolVal(False)
        if 'src' in r:
            # "    static <type> f = <value>;"
            line = [l for l in r['src'].split('\n') if ' f' in l]
            parts = parse_markers(line[0]) if line else []
            ok = z3.BoolVal(False)
            if r['proto'] == 'Z':
                txt = line[0] if line else ''
                ok = z3.BoolVal(('= True;' in txt or '= true;' in txt) if val is True else
                                ('= False;' in txt or '= false;' in txt or txt.rstrip().endswith(' f;')))
            elif len(parts) == 3 and parts[0][0] == 'lit' and parts[1][0] == 'sym' and parts[2] == ('lit', ';') \
                    and parts[0][1].rstrip().endswith('f =') and parts[1][3] == 'int' and parts[1][2] in ('', '#x', 'd'):
                ref = z3.If(z3.Or([typ == t for t in SIGNED]), sext, payload)
                ok = parts[1][1] == ref
            elif len(parts) == 1 and parts[0][0] == 'lit':
                # a concrete zero is falsy in the decompiler's `if init_value` test ... no: init_value object is truthy
                ok = z3.BoolVal(False)
            obs['decompiled initialiser'] = ok
            ctx.reached('printed:' + r['proto'])
        ctx.obligations(eng, pc, obs, ext, regions, label='scalar', what='%s differs from the encoded_value definition')
        ctx.sample(dict(path_value_kind=type(val).__name__, marker_line=[p[0] for p in parse_markers(r['src'])] if 'src' in r else None))
    eng.partition_guard()

    # ---- nested: array[1]{ annotation{ type_idx, (name1: int), (name0: array[SZ]{ short, byte, char, string }) } }
    # the symbolic-size array comes last, so every size 0..4 is a well-formed stream
    N = [fresh_byte('n%d' % i) for i in range(16)]
    SZ = fresh_byte('sz')
    inner = [V['SHORT'] | 1 << 5, N[0], N[1], V['BYTE'], N[2], V['CHAR'] | 0 << 5, N[3], V['STRING'] | 1 << 5, N[4], N[5]]
    ends = [0, 3, 5, 7, 10]
    nested = [V['ARRAY'], 1, V['ANNOTATION'], N[6], 2, N[8], V['INT'] | 2 << 5, N[9], N[10], N[11],
              N[7], V['ARRAY'], SZ] + inner + [0x5a]
    pre = [N[6].e < 0x80, N[7].e < 0x80, N[8].e < 0x80, SZ.e <= 4]
    eng = ctx.new_engine(pre=pre)

    def go2():
        f = dex.io.BytesIO(SBytes(nested))
        ev = dex.EncodedValue(f, cm)
        outer = ev.get_value().get_values()
        ann = outer[0].get_value()
        els = ann.get_elements()
        arr = els[1].get_value().get_value().get_values()
        return dict(pos=f.tell(), n_outer=len(outer), tidx=ann.get_type_idx(), n_els=len(els),
                    names=[e.get_name_idx() for e in els], intval=els[0].get_value().get_value(),
                    leaves=[a.get_value() for a in arr])

    def ext2(m):
        return dict(kind='nested', bytes=bytes(mval(m, x) for x in nested).hex())
    want = [z_sext(N[0].e | (N[1].e << 8), 2), z_sext(N[2].e, 1), N[3].e, N[4].e | (N[5].e << 8)]
    for pc, (kind, r) in eng.explore(go2, keep_pcs=True):
        if kind == 'exc':
            ctx.obligation(eng, pc, z3.BoolVal(False), ext2, regions, label='nested', what='raised %r' % r)
            continue
        ctx.reached('nested')
        k = len(r['leaves'])
        obs = {'array size': SZ.e == k, 'outer': z3.BoolVal(r['n_outer'] == 1 and r['n_els'] == 2),
               'consumed': bv(r['pos']) == 13 + ends[min(k, 4)],
               'annotation type_idx': bv(r['tidx']) == N[6].e,
               'element names': z3.And(bv(r['names'][0]) == N[8].e, bv(r['names'][1]) == N[7].e),
               'int element': bv(r['intval']) == z_sext(N[9].e | (N[10].e << 8) | (N[11].e << 16), 3)}
        leaf = []
        for i, v in enumerate(r['leaves'][:4]):
            if i == 3:
                leaf.append(z3.BoolVal(isinstance(v, tuple) and v[0] == 'string'))
                v = v[1] if isinstance(v, tuple) else 0
            leaf.append(bv(v) == want[i])
        obs['array leaves'] = z3.And(leaf + [z3.BoolVal(True)])
        ctx.obligations(eng, pc, obs, ext2, regions, label='nested', what='%s differs')
        ctx.sample(dict(nested_array_size=k))
    eng.partition_guard()


def _obs_scalar(dex, bs):
    import io
    f = dex.io.BytesIO(bs)
    ev = dex.EncodedValue(f, TagCM(dex))
    v = ev.get_value()
    return [list(v) if isinstance(v, tuple) else v, f.tell()]


def concrete(c):
    from androguard.core import dex
    return _obs_scalar(dex, bytes.fromhex(c) + b'\x5a')


def replay(w):
    from androguard.core import dex
    bs = bytes.fromhex(w['bytes'])
    if w['kind'] == 'scalar':
        try:
            got = _obs_scalar(dex, bs + b'\x5a')
        except Exception as e:
            return True, 'bytes %s raised %r' % (w['bytes'], e)
        exp = list(ref_scalar(bs))
        bad = got != exp
        detail = 'encoded_value %s: get_value()/consumed = %r, definition gives %r' % (w['bytes'][:2 + 2 * (exp[1] - 1)], got, exp)
        if not bad and (bs[0] & 0x1f) in PROTO:
            from androguard.decompiler import decompile
            import io
            ev = dex.EncodedValue(io.BytesIO(bs), TagCM(dex))
            src = make_dvclass(decompile, [FieldStub('f', PROTO[bs[0] & 0x1f], ev)]).get_source()
            line = [l for l in src.split('\n') if ' f' in l][0]
            txt = line.split('=')[-1].strip(' ;') if '=' in line else None
            try:
                printed = int(txt, 0) if txt not in ('True', 'False', 'true', 'false', None) else txt
            except Exception:
                printed = txt
            want = exp[0]
            if isinstance(want, bool):
                ok = str(printed).lower() == str(want).lower() or (printed is None and want is False)
            else:
                ok = printed == want
            bad = not ok
            detail = 'field initialiser printed %r for encoded value %r (bytes %s)' % (line.strip(), want, w['bytes'][:18])
        return bad, detail
    # nested: independent decode of the fixed template
    import io
    tidx, n1 = bs[3], bs[5]
    intval = int.from_bytes(bs[7:10], 'little', signed=True)
    n0, sz = bs[10], bs[12]
    p = 13
    leaves = []
    for _ in range(sz):
        v, n = ref_scalar(bs[p:])
        leaves.append(v)
        p += n
    exp = [tidx, [n1, n0], intval, leaves, p]
    try:
        f = io.BytesIO(bs)
        ev = dex.EncodedValue(f, TagCM(dex))
        ann = ev.get_value().get_values()[0].get_value()
        els = ann.get_elements()
        arr = els[1].get_value().get_value().get_values()
        got = [ann.get_type_idx(), [e.get_name_idx() for e in els], els[0].get_value().get_value(),
               [list(a.get_value()) if isinstance(a.get_value(), tuple) else a.get_value() for a in arr], f.tell()]
    except Exception as e:
        return True, 'nested value raised %r' % e
    return got != exp, 'nested: got %r expected %r' % (got, exp)
