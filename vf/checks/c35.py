"""C35 termination: bounded model checking with unwinding assertions of the parsers' input-driven loops, each driven at
its enclosing function on a buffer of N fully symbolic bytes.  Every `while` iteration is counted through the loop probe the
import hook inserts, every `for .. in range(<symbolic>)` through the lazy range iterator; exceeding c*N+d is a violation
whose witness buffer is replayed under a wall-clock limit."""
import sys
import z3
from ..engine import *
from .. import engine as E
from .. import common, hook

FUNCS = ['androguard.core.dex.read_null_terminated_string', 'readuleb128/readsleb128', 'DebugInfoItem.__init__',
         'HiddenApiClassDataItem.__init__', 'EncodedArray/EncodedAnnotation/EncodedCatchHandlerList.__init__',
         'androguard.core.axml.ARSCHeader.__init__ (dummy-data loop)', 'androguard.core.axml.StringBlock.__init__',
         'androguard.core.apk.APK.parse_signatures_or_digests', 'APK.read_uint32_le',
         'androguard.core.axml.AXMLParser.__init__ / _do_next (chunk walk)', 'ARSCParser.__init__ (chunk walk)', 'ARSCHeader.end',
         'ARSCResTypeSpec.__init__ (entry loop)']


class Counter:
    def __init__(self, bound):
        self.n = 0
        self.bound = bound

    def __call__(self, loop_id):
        self.n += 1
        if self.n > self.bound:
            E.UNWOUND[0] = "loop %s exceeded %d iterations" % (loop_id, self.bound)
            raise UnwindExceeded("loop %s exceeded %d iterations" % (loop_id, self.bound))


def targets():
    """name -> (runner(buf) , N list quick, N list thorough, iteration bound as function of N)"""
    dex = common.dexmod()
    axml = common.axmlmod()
    hook.install()
    from androguard.core import apk as apkmod
    apkmod.unpack = SymStructModule.unpack
    apkmod.io = SymIOModule
    apkmod.logger = NullLogger()
    cm = common.SymCM(dex)

    class TagCM(common.SymCM):
        def get_raw_string(self, i): return 's'
        def get_type(self, i): return 't'
        def get_field(self, i): return 'f'
        def get_method(self, i): return 'm'
    tcm = TagCM(dex)

    def reader(buf):
        f = dex.io.BytesIO(buf)
        return len(dex.read_null_terminated_string(f))

    def debuginfo(buf):
        return len(dex.DebugInfoItem(dex.io.BytesIO(buf), cm).bytecodes)

    # the IntEnum conversions of the flag values hash their argument (would enumerate 2^32 values); they are not loops
    dex.HiddenApiClassDataItem.RestrictionApiFlag = staticmethod(lambda v: v)
    dex.HiddenApiClassDataItem.DomapiApiFlag = staticmethod(lambda v: v)

    def hiddenapi(buf):
        return len(dex.HiddenApiClassDataItem(dex.io.BytesIO(buf), cm).flags)

    def enc_array(buf):
        return dex.EncodedArray(dex.io.BytesIO(buf), tcm).get_size()

    def enc_annotation(buf):
        return dex.EncodedAnnotation(dex.io.BytesIO(buf), tcm).get_size()

    def handlers(buf):
        return dex.EncodedCatchHandlerList(dex.io.BytesIO(buf), cm).get_size()

    def arsc_header(buf):
        f = axml.io.BytesIO(buf)
        f.seek(4)
        return axml.ARSCHeader(f).size

    def typespec(buf):
        return len(axml.ARSCResTypeSpec(axml.io.BytesIO(buf)).typespec_entries)

    import struct as _st

    def axml_doc(buf):
        # a binary XML file: header + empty string pool, followed by the symbolic bytes as its chunk area
        n = len(buf)
        pre = _st.pack('<HHI', 0x0003, 8, 8 + 28 + n) + _st.pack('<HHIIIIII', 0x0001, 28, 28, 0, 0, 0, 28, 0)
        p = axml.AXMLParser(SBytes(list(pre) + list(buf.items)))
        k = 0
        while p.is_valid() and next(p) != axml.END_DOCUMENT:
            k += 1
        return k

    def arsc_doc(buf):
        # a resource table: header + empty string pool, followed by the symbolic bytes as its chunk area
        n = len(buf)
        pre = _st.pack('<HHII', 0x0002, 12, 12 + 28 + n, 1) + _st.pack('<HHIIIIII', 0x0001, 28, 28, 0, 0, 0, 28, 0)
        return len(axml.ARSCParser(SBytes(list(pre) + list(buf.items))).packages)

    def digests(buf):
        a = apkmod.APK.__new__(apkmod.APK)
        return len(a.parse_signatures_or_digests(buf))
    return {
        'read_null_terminated_string': (reader, [260], [260, 300], lambda N: N // 128 + 3),
        'DebugInfoItem': (debuginfo, [4], [5], lambda N: N + 2),
        'HiddenApiClassDataItem': (hiddenapi, [8, 12], [12, 16], lambda N: N + 2),
        'EncodedArray': (enc_array, [3], [4], lambda N: N + 2),
        'EncodedAnnotation': (enc_annotation, [3], [4], lambda N: N + 2),
        'EncodedCatchHandlerList': (handlers, [4], [5, 6], lambda N: N + 2),
        'ARSCResTypeSpec': (typespec, [12, 16], [16, 24], lambda N: N + 2),
        'ARSCHeader': (arsc_header, [12, 14], [16, 20], lambda N: N + 2),
        'parse_signatures_or_digests': (digests, [12, 16], [20, 24], lambda N: N + 2),
        'AXMLParser chunk walk': (axml_doc, [8, 12, 16], [12, 16], lambda N: 4 * N + 16),
        'ARSCParser chunk walk': (arsc_doc, [8, 12, 16], [12, 16], lambda N: 4 * N + 16),
    }


def job(jc, spec):
    name, N = spec
    runner, _, _, boundf = targets()[name]
    B = [fresh_byte('b%d' % i) for i in range(N)]
    bound = boundf(N)
    E.RANGE_CAP[0] = bound
    eng = jc.new_engine()
    label = '%s N=%d' % (name, N)

    def go():
        c = Counter(bound)
        hook.LOOP_HOOK[0] = c
        E.UNWOUND[0] = None
        try:
            try:
                r = runner(SBytes(B))
                if E.UNWOUND[0]:        # the parser caught the unwinding exception in a broad except clause
                    return ('unwound', E.UNWOUND[0])
                return ('done', c.n)
            except UnwindExceeded as e:
                return ('unwound', str(e))
            except Inconclusive:
                raise
            except Abort:
                raise
            except Exception as e:
                if E.UNWOUND[0]:
                    return ('unwound', E.UNWOUND[0])
                return ('error', type(e).__name__, c.n)       # "raising an error" is a permitted way to finish
        finally:
            hook.LOOP_HOOK[0] = None

    alt = []

    def ext(m):
        # `alt`: the solver's first model of the same path; the replay accepts either input
        return dict(target=name, bytes=mbytes(m, B).hex(), alt=list(alt), bound=bound)
    worst = 0
    for pc, (kind, r) in eng.explore(go, keep_pcs=True):
        jc.reached(name)
        if kind == 'exc':
            jc.obligation(eng, pc, z3.BoolVal(False), ext, label=label, what='harness: %r' % (r,))
            continue
        if r[0] == 'unwound':
            # the witness is pushed towards the largest counts the path allows (greedily, high bytes first), so that the
            # replay on the real code sees as much work as this path can cause, not just one iteration over the bound
            pc = list(pc)
            m0 = eng.solve(pc)
            alt[:] = [mbytes(m0, B).hex()] if m0 is not None else []
            for b in reversed(B):
                if eng.solve(pc, [b.e == 255]) is not None:
                    pc.append(b.e == 255)
            jc.obligation(eng, pc, z3.BoolVal(False), ext, label=label,
                          what='more than %d loop iterations on %d input bytes (%s)' % (bound, N, r[1]))
        else:
            worst = max(worst, r[-1])
            eng.st.obligations += 1
            eng.st.discharged += 1
    eng.partition_guard()
    jc.sample(dict(target=name, input_bytes=N, iteration_bound=bound, max_while_iterations_seen=worst, paths=eng.st.paths))


def run(ctx):
    T = targets()
    ctx.functions_encoded = FUNCS
    jobs = []
    for name, (_, q, th, bf) in T.items():
        for N in (th if ctx.thorough else q):
            jobs.append((name, N))
    ctx.bounds = dict(targets={n: dict(N=(T[n][2] if ctx.thorough else T[n][1])) for n in T},
                      bound='while / for iterations + range iterations <= N + 2 per function (N/128 + 3 for the chunked string '
                      'reader, 4N + 16 for the chunk walks, whose header reader may skip dummy bytes one at a time)')
    ctx.stubs = ['SymIO / SymStruct', 'loop-head probe inserted by the import hook (no-op outside this check)',
                 'lazy symbolic range() with unwinding cap', 'ClassManager pool lookups stubbed', 'HiddenApi IntEnum conversions -> identity']
    ctx.assumptions = ['every loop iteration of these functions consumes at least one input byte or ends the loop; an exception '
                       'is an accepted way to finish', 'LinearSweepAlgorithm progress is C02, resource reference cycles C29']
    ctx.outside_claim = ['whole-file parses and buffers longer than the stated N', 'CPU time of C callees (zlib, lxml)',
                         'the attribute / entry loops inside AXML and ARSC chunks other than the type-spec entry loop (covered through the C26/C28 skeletons only)',
                         'parse_v2_v3_signature loops (C33 skeleton)']
    import random
    rnd = random.Random(ctx.seed)
    cases = [[n, rnd.randbytes(N).hex()] for n in T for N in T[n][1] for _ in range(4)
             if n not in ('read_null_terminated_string', 'ARSCResTypeSpec')]
    # (this comparison validates the model on ordinary inputs; declared counts stay small so that it ends on any tree)
    cases += [['ARSCResTypeSpec', (rnd.randbytes(4) + bytes([k, 0, 0, 0]) + rnd.randbytes(N - 8)).hex()]
              for N in T['ARSCResTypeSpec'][1] for k in (0, 1, 2, 5)]
    cases += [['read_null_terminated_string', (b'a' * 200 + b'\x00').hex()], ['read_null_terminated_string', (b'abc\x00d').hex()]]
    ctx.diff_unhooked(sys.modules[__name__], cases)
    ctx.expect_reach(list(T))
    ctx.pmap(job, jobs)


def _run_real(name, bs):
    """the same entry points on the unhooked (or hooked) module with concrete bytes"""
    import io
    from androguard.core import dex, axml
    from androguard.core import apk as apkmod
    cm = common.SymCM(dex)

    class TagCM(common.SymCM):
        def get_raw_string(self, i): return 's'
        def get_type(self, i): return 't'
        def get_field(self, i): return 'f'
        def get_method(self, i): return 'm'
    bio = dex.io.BytesIO
    if name == 'read_null_terminated_string':
        return len(dex.read_null_terminated_string(bio(bs)))
    if name == 'DebugInfoItem':
        return len(dex.DebugInfoItem(bio(bs), cm).bytecodes)
    if name == 'HiddenApiClassDataItem':
        try:
            return len(dex.HiddenApiClassDataItem(bio(bs), cm).flags)
        except ValueError:          # invalid enum value: the symbolic run stubs the enum conversion
            return 'enum-error'
    if name == 'EncodedArray':
        return dex.EncodedArray(bio(bs), TagCM(dex)).get_size()
    if name == 'EncodedAnnotation':
        return dex.EncodedAnnotation(bio(bs), TagCM(dex)).get_size()
    if name == 'EncodedCatchHandlerList':
        return dex.EncodedCatchHandlerList(bio(bs), cm).get_size()
    if name == 'ARSCHeader':
        f = axml.io.BufferedReader(axml.io.BytesIO(bs))
        f.seek(4)
        return axml.ARSCHeader(f).size
    if name == 'parse_signatures_or_digests':
        return len(apkmod.APK.__new__(apkmod.APK).parse_signatures_or_digests(bs))
    import struct as _st
    n = len(bs)
    if name == 'ARSCResTypeSpec':
        return len(axml.ARSCResTypeSpec(axml.io.BytesIO(bs)).typespec_entries)
    if name == 'AXMLParser chunk walk':
        pre = _st.pack('<HHI', 0x0003, 8, 8 + 28 + n) + _st.pack('<HHIIIIII', 0x0001, 28, 28, 0, 0, 0, 28, 0)
        p = axml.AXMLParser(pre + bs)
        k = 0
        while p.is_valid() and next(p) != axml.END_DOCUMENT:
            k += 1
        return k
    if name == 'ARSCParser chunk walk':
        pre = _st.pack('<HHII', 0x0002, 12, 12 + 28 + n, 1) + _st.pack('<HHIIIIII', 0x0001, 28, 28, 0, 0, 0, 28, 0)
        return len(axml.ARSCParser(pre + bs).packages)
    raise KeyError(name)


def concrete(c):
    try:
        r = _run_real(c[0], bytes.fromhex(c[1]))
        if c[0] == 'HiddenApiClassDataItem':
            r = 'finished'          # enum conversion is stubbed in the hooked run: only completion is compared
        return ['ok', r]
    except Exception as e:
        return ['error', type(e).__name__]


def replay(w):
    last = (False, '')
    for hx in [w['bytes']] + list(w.get('alt', [])):
        last = _replay_one(w['target'], hx, w.get('bound'))
        if last[0]:
            return last
    return last


_LOOP_LINES = {}


def _loop_lines(filename):
    """first body line of every while / for statement of a source file: the places where the import hook puts its probe"""
    if filename not in _LOOP_LINES:
        import ast
        try:
            tree = ast.parse(open(filename).read())
            _LOOP_LINES[filename] = {n.body[0].lineno for n in ast.walk(tree) if isinstance(n, (ast.While, ast.For))}
        except Exception:
            _LOOP_LINES[filename] = set()
    return _LOOP_LINES[filename]


def _replay_one(target, hx, bound):
    """the same measure as the symbolic run, taken on the real code with a line tracer in a thread: the number of loop
    iterations (arrivals at the first body line of any while / for statement of androguard) exceeds the bound, or the
    call does not finish within 5 s"""
    import threading
    import time
    bs = bytes.fromhex(hx)
    res = {}
    if bound is None:
        bound = targets()[target][3](len(bs))
    count = [0]

    class TooMuch(BaseException):
        pass

    def tracer(frame, event, arg):
        fn = frame.f_code.co_filename
        if 'androguard' not in fn:
            return None
        heads = _loop_lines(fn)
        if not heads:
            return None

        def local(frame, event, arg):
            if event == 'line' and frame.f_lineno in heads:
                count[0] += 1
                if count[0] > bound:
                    raise TooMuch()
            return local
        return local

    def run():
        sys.settrace(tracer)
        try:
            res['r'] = ('ok', _run_real(target, bs))
        except TooMuch:
            res['r'] = ('toomuch',)
        except Exception as e:
            res['r'] = ('toomuch',) if count[0] > bound else ('error', type(e).__name__)
        finally:
            sys.settrace(None)
    t0 = time.time()
    t = threading.Thread(target=run, daemon=True)
    t.start()
    t.join(5)
    if t.is_alive():
        import os, json
        print(json.dumps([dict(reproduced=True, detail='%s does not finish within 5 s on the %d-byte input %s' % (
            target, len(bs), hx[:40]))]))
        sys.stdout.flush()
        os._exit(0)
    if res.get('r') == ('toomuch',) or count[0] > bound:
        return True, '%s runs more than %d loop iterations on the %d-byte input %s' % (target, bound, len(bs), hx[:40])
    return False, '%s finished in %.3f s after %d loop iterations (bound %d): %r' % (target, time.time() - t0, count[0], bound, res.get('r'))
