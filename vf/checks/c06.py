"""C06 strings: read_null_terminated_string on fully symbolic bytes; MUTF-8 round trip of symbolic UTF-16 code units
through StringDataItem / androguard.core.mutf8.decode; const-string lookup with a symbolic string index on a skeleton."""
import sys
import random
import z3
from ..engine import *
from .. import engine as E
from ..sstr import SStr, fresh_char, cpt, sx_ord, sx_chr
from .. import common, hook, dexasm
from ..dexasm import Cls, Mth, Code

FUNCS = ['androguard.core.dex.read_null_terminated_string', 'StringDataItem.__init__/get/get_data/get_utf16_size',
         'androguard.core.mutf8.decode', 'mutf8.mutf8.decode_modified_utf8 (the package fallback, run symbolically)',
         'ClassManager.get_string / get_raw_string', 'Instruction21c.get_raw_string', 'DEX.get_strings']


# ------------------------------------------------------------------ reference MUTF-8 encoder of UTF-16 code units
def enc_units(units):
    out = bytearray()
    for u in units:
        if u == 0:
            out += b'\xc0\x80'
        elif u < 0x80:
            out.append(u)
        elif u < 0x800:
            out += bytes([0xc0 | u >> 6, 0x80 | u & 0x3f])
        else:
            out += bytes([0xe0 | u >> 12, 0x80 | (u >> 6) & 0x3f, 0x80 | u & 0x3f])
    return bytes(out)


def utf16(s):
    out = []
    for ch in s:
        o = ord(ch)
        if o > 0xFFFF:
            o -= 0x10000
            out += [0xD800 + (o >> 10), 0xDC00 + (o & 0x3FF)]
        else:
            out.append(o)
    return out


def sym_enc(units):
    """MUTF-8 bytes of symbolic code units (branches on the size class of each unit through the engine)"""
    out = []
    for u in units:
        if bool(SBool(u.e == 0)):
            out += [0xc0, 0x80]
        elif bool(SBool(u.e < 0x80)):
            out.append(SInt(u.e, 1, 0x7f))
        elif bool(SBool(u.e < 0x800)):
            out += [SInt(0xc0 | (u.e >> 6), 0xc0, 0xdf), SInt(0x80 | (u.e & 0x3f), 0x80, 0xbf)]
        else:
            out += [SInt(0xe0 | (u.e >> 12), 0xe0, 0xef), SInt(0x80 | ((u.e >> 6) & 0x3f), 0x80, 0xbf),
                    SInt(0x80 | (u.e & 0x3f), 0x80, 0xbf)]
    return out


def sym_utf16(s):
    out = []
    for c in s.c:
        if isinstance(c, int):
            out += utf16(chr(c))
        elif bool(SBool(c.e <= 0xFFFF)):
            out.append(c)
        else:
            o = c - 0x10000
            out += [0xD800 + (o >> 10), 0xDC00 + (o & 0x3FF)]
    return out


# ------------------------------------------------------------------ (a) the NUL-terminated reader
def job_reader(jc, spec):
    _, N, start = spec
    dex = common.dexmod()
    B = [fresh_byte('b%d' % i) for i in range(N)]
    eng = jc.new_engine()
    label = 'reader N=%d start=%d' % (N, start)
    hit = [0]

    def loop_probe(loop_id):
        hit[0] += 1
        if hit[0] > N // 128 + 3:
            raise UnwindExceeded("read loop exceeded its bound")
    def go():
        hit[0] = 0
        hook.LOOP_HOOK[0] = loop_probe
        try:
            f = dex.io.BytesIO(SBytes(B))
            f.seek(start)
            r = dex.read_null_terminated_string(f)
            return r, f.tell()
        finally:
            hook.LOOP_HOOK[0] = None

    def ext(m):
        return dict(kind='reader', bytes=mbytes(m, B).hex(), start=start)
    regions = {'c35_no_terminator': z3.And([b.e != 0 for b in B[start:]] + [z3.BoolVal(True)])}
    for pc, (kind, r) in eng.explore(go, keep_pcs=True):
        jc.reached('reader')
        if kind == 'exc':
            jc.obligation(eng, pc, z3.BoolVal(False), ext, regions, label=label, what='reader raised %s' % type(r).__name__)
            continue
        data, pos = r
        L = len(data)
        p = start + L
        if p < N:
            ob = z3.And([B[start + i].e != 0 for i in range(L)] + [B[p].e == 0, beq(list(data), B[start:p]), bv(pos) == p + 1])
        else:
            # no terminator before the end of the file: everything up to EOF is returned
            ob = z3.And([B[start + i].e != 0 for i in range(L)] + [beq(list(data), B[start:p]), z3.BoolVal(p == N)])
        jc.obligation(eng, pc, ob, ext, regions, label=label, what='string bytes / stream position differ from the bytes before the first NUL')
    eng.partition_guard()
    jc.sample(dict(case=label, paths=eng.st.paths))


# ------------------------------------------------------------------ (b) MUTF-8 round trip through StringDataItem
def job_roundtrip(jc, spec):
    _, k = spec
    dex = common.dexmod()
    dex.ord = sx_ord
    common.bind_sym_mutf8()
    from androguard.core import mutf8 as wrapper
    dex.mutf8 = wrapper
    cm = common.SymCM(dex)
    U = [fresh_uint('u%d' % i, 16) for i in range(k)]
    eng = jc.new_engine()
    label = 'round trip of %d UTF-16 units' % k

    def go():
        enc = sym_enc(U)
        # utf16_size is what a DEX writer stores: the number of code units
        f = dex.io.BytesIO(SBytes([k] + enc + [0, 0x5a]))
        sdi = dex.StringDataItem(f, cm)
        s = sdi.get()
        if isinstance(s, str):
            s = SStr.of(s)
        # the file-level listing must give the same text (DEX.get_strings over the string items)
        holder = type('D', (), {'strings': [sdi]})()
        listed = dex.DEX.get_strings(holder)
        l0 = SStr.of(listed[0]) if isinstance(listed[0], str) else listed[0]
        return sym_utf16(s), f.tell(), 1 + len(enc) + 1, sdi.get_utf16_size(), len(sdi.get_data()), (len(listed), sym_utf16(l0))

    def ext(m):
        return dict(kind='roundtrip', units=[mval(m, u) for u in U])
    for pc, (kind, r) in eng.explore(go, keep_pcs=True):
        jc.reached('roundtrip')
        if kind == 'exc':
            jc.obligation(eng, pc, z3.BoolVal(False), ext, label=label, what='decoding raised %s' % type(r).__name__)
            continue
        units, pos, want_pos, usz, dlen, (nlisted, lunits) = r
        ob = z3.And([z3.BoolVal(len(units) == k and pos == want_pos and usz == k and dlen == want_pos - 1)] +
                    [bv(a) == b.e for a, b in zip(units, U)] +
                    [z3.BoolVal(nlisted == 1 and len(lunits) == k)] + [bv(a) == b.e for a, b in zip(lunits, U)])
        jc.obligation(eng, pc, ob, ext, label=label, what='decoded text is not the UTF-16 sequence the MUTF-8 bytes encode')
    eng.partition_guard()
    jc.sample(dict(case=label, paths=eng.st.paths))


# ------------------------------------------------------------------ (c) string index -> string on a skeleton DEX
STRS = ['alpha', 'béta', '\u0000nul', 'supp\U0001F600', 'lone\ud800x']


def skeleton():
    def code(P):
        return [0x001a, P.string(STRS[1]), 0x011b, P.string(STRS[3]), 0x0000, 0x000e]

    def extra(P):
        for s in STRS:
            P.string(s)
    A = Cls('LA;', dmethods=[Mth('f', 'V', (), 0x9, Code(2, 0, 0, code))])
    return dexasm.assemble([A], extra=extra)


def job_index(jc, spec):
    dex = common.dexmod()
    blob, P, L = skeleton()
    hook.ZL.value = int.from_bytes(blob[8:12], 'little')
    ins0 = L.insns_off[('LA;', 'f')]
    I16 = [fresh_byte('i0'), fresh_byte('i1')]
    J32 = [fresh_byte('j%d' % i) for i in range(4)]
    items = list(blob)
    items[ins0 + 2:ins0 + 4] = I16
    items[ins0 + 6:ins0 + 10] = J32
    i16 = I16[0].e | (I16[1].e << 8)
    j32 = J32[0].e | (J32[1].e << 8) | (J32[2].e << 16) | (J32[3].e << 24)
    ns = len(P.s_list)
    eng = jc.new_engine(pre=[i16 < ns, j32 < ns])

    def go():
        d = dex.DEX(SBytes(items))
        m = [x for x in d.get_encoded_methods() if x.get_name() == 'f'][0]
        ins = list(m.get_instructions())
        return ins[0].get_raw_string(), ins[1].get_raw_string(), list(d.get_strings())

    def ext(m):
        return dict(kind='index', i16=m.eval(i16, model_completion=True).as_long(), j32=m.eval(j32, model_completion=True).as_long())
    for pc, (kind, r) in eng.explore(go, keep_pcs=True):
        jc.reached('index')
        if kind == 'exc':
            jc.obligation(eng, pc, z3.BoolVal(False), ext, label='index', what='raised %r' % (r,))
            continue
        a, b, allstr = r
        ob = z3.And(z3.Or([z3.And(i16 == k, z3.BoolVal(a == s)) for k, s in enumerate(P.s_list)]),
                    z3.Or([z3.And(j32 == k, z3.BoolVal(b == s)) for k, s in enumerate(P.s_list)]),
                    z3.BoolVal(allstr == P.s_list))
        jc.obligation(eng, pc, ob, ext, label='index', what='const-string operand does not resolve to the pool string at its index')
    eng.partition_guard()
    jc.sample(dict(case='string index', pool=[repr(s) for s in P.s_list], paths=eng.st.paths))


def _dispatch(jc, spec):
    return {'reader': job_reader, 'roundtrip': job_roundtrip, 'index': job_index}[spec[0]](jc, spec)


def run(ctx):
    common.dexmod()
    ctx.functions_encoded = FUNCS
    rd = [(300, 5), (270, 120), (140, 0)] if ctx.thorough else [(140, 0), (260, 125)]
    ks = [1, 2, 3] if ctx.thorough else [1, 2]
    ctx.bounds = dict(reader='buffers of %s fully symbolic bytes (N, start offset): one path per position of the first NUL, '
                             'chunk boundaries at 128/256 included' % rd,
                      roundtrip='strings of %s UTF-16 code units, each unit any value 0..0xFFFF (NUL, surrogates paired and '
                                'lone included), encoded by a reference MUTF-8 encoder' % ks,
                      index='skeleton DEX with %d pool strings, const-string (16 bit) and const-string/jumbo (32 bit) index symbolic' % (len(STRS) + 6))
    ctx.stubs = ['SymIO / SymStruct', "the mutf8 package's pure-Python decoder loaded through the AST rewrite in place of its "
                 'compiled cmutf8 twin (both are compared concretely on every run)', 'adler32 stub for the skeleton']
    ctx.assumptions = ['MUTF-8 reference: U+0000 -> C0 80, < 0x80 one byte, < 0x800 two bytes, else three bytes per UTF-16 unit '
                       '(supplementary characters as two three-byte surrogates)',
                       'a string without terminator before the end of the file is returned up to EOF']
    ctx.outside_claim = ['the compiled cmutf8 extension itself (third-party C code; compared with the fallback on sampled inputs)',
                         'strings longer than 3 units in the symbolic round trip (the decoder has no cross-character state '
                         'beyond the surrogate pair look-ahead)']
    # Serval-style validation + cmutf8 vs fallback
    rnd = random.Random(ctx.seed)
    cases = []
    pool = [0, 1, 0x41, 0x7f, 0x80, 0x7ff, 0x800, 0xd7ff, 0xd800, 0xdbff, 0xdc00, 0xdfff, 0xe000, 0xffff]
    for _ in range(80):
        units = [rnd.choice(pool + [rnd.randrange(0x10000)]) for _ in range(rnd.randrange(0, 5))]
        cases.append(dict(op='rt', units=units))
    cases += [dict(op='read', bytes=rnd.randbytes(rnd.randrange(1, 300)).hex() + '00') for _ in range(20)]
    ctx.diff_unhooked(sys.modules[__name__], cases)
    sm = common.sym_mutf8()
    import mutf8 as real
    for c in cases:
        if c['op'] == 'rt':
            b = enc_units(c['units'])
            if utf16(sm.decode_modified_utf8(b)) != utf16(real.decode_modified_utf8(b)) or utf16(real.decode_modified_utf8(b)) != c['units']:
                raise Inconclusive("cmutf8 and the fallback decoder disagree on %r" % b)
            ctx.validated += 1
    jobs = [('reader', n, s) for n, s in rd] + [('roundtrip', k) for k in ks] + [('index',)]
    ctx.expect_reach(['reader', 'roundtrip', 'index'])
    ctx.pmap(_dispatch, jobs)


def _decode_item(dex, units):
    import io
    enc = enc_units(units)
    f = dex.io.BytesIO(bytes([len(units)]) + enc + b'\x00\x5a')
    sdi = dex.StringDataItem(f, common.SymCM(dex))
    got = utf16(sdi.get())
    listed = dex.DEX.get_strings(type('D', (), {'strings': [sdi]})())
    if [utf16(x) for x in listed] != [got]:
        return [utf16(x) for x in listed], -1          # DEX.get_strings lists another text than the string item holds
    return got, f.tell()


def concrete(c):
    from androguard.core import dex
    if c['op'] == 'rt':
        return _decode_item(dex, c['units'])
    bs = bytes.fromhex(c['bytes'])
    f = dex.io.BytesIO(bs)
    r = dex.read_null_terminated_string(f)
    return [bytes(r).hex(), f.tell()]


def replay(w):
    from androguard.core import dex
    import io
    if w['kind'] == 'roundtrip':
        try:
            got, pos = _decode_item(dex, w['units'])
        except Exception as e:
            return True, 'units %r raised %r' % (w['units'], e)
        exp = (w['units'], 1 + len(enc_units(w['units'])) + 1)
        if pos == -1:
            return True, 'MUTF-8 of UTF-16 units %s: DEX.get_strings lists %r' % ([hex(u) for u in w['units']], got)
        return (got, pos) != exp, 'MUTF-8 of UTF-16 units %s decoded to %s (stream at %d, expected %d)' % (
            [hex(u) for u in w['units']], [hex(u) for u in got], pos, exp[1])
    if w['kind'] == 'reader':
        bs = bytes.fromhex(w['bytes'])
        import threading
        res = {}

        def run():
            f = io.BytesIO(bs)
            f.seek(w['start'])
            try:
                res['r'] = (bytes(dex.read_null_terminated_string(f)), f.tell())
            except Exception as e:
                res['r'] = ('exc', repr(e))
        t = threading.Thread(target=run, daemon=True)
        t.start()
        t.join(5)
        if t.is_alive():
            import os
            print(__import__('json').dumps([dict(reproduced=True, detail='read_null_terminated_string does not return on %d bytes without a NUL after offset %d' % (len(bs), w['start']))]))
            sys.stdout.flush()
            os._exit(0)
        rest = bs[w['start']:]
        p = rest.find(b'\x00')
        exp = (rest[:p], w['start'] + p + 1) if p >= 0 else (rest, len(bs))
        return res['r'] != exp, 'reader returned %r, expected %r' % (res['r'], exp)
    blob, P, L = skeleton()
    ins0 = L.insns_off[('LA;', 'f')]
    b = bytearray(blob)
    b[ins0 + 2:ins0 + 4] = w['i16'].to_bytes(2, 'little')
    b[ins0 + 6:ins0 + 10] = w['j32'].to_bytes(4, 'little')
    d = dex.DEX(dexasm.fix_checksum(bytes(b)))
    m = [x for x in d.get_encoded_methods() if x.get_name() == 'f'][0]
    ins = list(m.get_instructions())
    got = [ins[0].get_raw_string(), ins[1].get_raw_string()]
    exp = [P.s_list[w['i16']], P.s_list[w['j32']]]
    return got != exp, 'const-string indices %d/%d resolve to %r, pool has %r' % (w['i16'], w['j32'], got, exp)
