"""C33 APK Signing Block: parse_v2_v3_signature / parse_v2_signing_block / parse_v3_signing_block and the getters on a
skeleton archive tail [local header][signing block][central directory][EOCD] whose pair ids and signer leaves are symbolic."""
import struct
import sys
import z3
from ..engine import *
from .. import common, hook

FUNCS = ['androguard.core.apk.APK.parse_v2_v3_signature', 'parse_v2_signing_block', 'parse_v3_signing_block',
         'parse_signatures_or_digests', 'read_uint32_le', 'is_signed_v2/v3/v31', 'get_certificates_der_v2/v3/v31',
         'get_public_keys_der_v2/v3/v31', 'has_duplicate_apk_signature_ids']
V2, V3, V31 = 0x7109871A, 0xF05368C0, 0x1B93AD61
MAGIC = b'APK Sig Block 42'


def lp(b):
    b = list(b)
    return list(struct.pack('<I', len(b))) + b


def signer(fmt, digests, certs, attrs, sigs, pubkey, sdk=(None, None)):
    """one length-prefixed signer (v2 or v3 layout) from leaf byte lists"""
    dg = []
    for alg, d in digests:
        dg += lp(list(alg) + lp(d))
    ce = []
    for c in certs:
        ce += lp(c)
    signed = lp(dg) + lp(ce)
    if fmt == 'v3':
        signed += list(sdk[0]) + list(sdk[1])
    signed += lp(attrs)
    sg = []
    for alg, s in sigs:
        sg += lp(list(alg) + lp(s))
    body = lp(signed)
    if fmt == 'v3':
        body += list(sdk[0]) + list(sdk[1])
    body += lp(sg) + lp(pubkey)
    return lp(body)


def block_value(fmt, signers):
    seq = []
    for s in signers:
        seq += s
    return lp(seq)


def u32(v):
    return list(struct.pack('<I', v))


def archive(pairs):
    """pairs: list of (id bytes(4 items), value items)"""
    body = []
    for pid, val in pairs:
        body += list(struct.pack('<Q', 4 + len(val))) + list(pid) + list(val)
    size = len(body) + 8 + 16
    block = list(struct.pack('<Q', size)) + body + list(struct.pack('<Q', size)) + list(MAGIC)
    local = list(b'PK\x03\x04' + b'\x00' * 26)
    cd_off = len(local) + len(block)
    cd = list(b'PK\x01\x02' + b'\x00' * 42)
    eocd = list(b'PK\x05\x06' + struct.pack('<HHHHIIH', 0, 0, 1, 1, len(cd), cd_off, 0))
    return local + block + cd + eocd


def make(fmt, sym):
    """three well-formed blocks of format fmt; leaves of block 0 symbolic when sym is a tag"""
    def leaf(name, n, default):
        if sym:
            return [fresh_byte('%s_%s%d' % (sym, name, i)) for i in range(n)]
        return list(default)
    L = dict(alg=leaf('alg', 4, u32(0x0103)), dig=leaf('dig', 4, b'DDDD'), cert=leaf('cert', 3, b'CRT'), attr=leaf('attr', 2, b'at'),
             salg=leaf('salg', 4, u32(0x0201)), sig=leaf('sig', 3, b'SIG'), key=leaf('key', 3, b'KEY'),
             mn=leaf('mn', 4, u32(24)), mx=leaf('mx', 4, u32(33)))
    s0 = signer(fmt, [(L['alg'], L['dig'])], [L['cert'], list(b'C2')], L['attr'], [(L['salg'], L['sig'])], L['key'], (L['mn'], L['mx']))
    s0b = signer(fmt, [(u32(0x0104), b'dd')], [b'cB'], b'', [(u32(0x0202), b's')], b'kB', (u32(1), u32(2)))
    b0 = block_value(fmt, [s0, s0b])
    b1 = block_value(fmt, [signer(fmt, [(u32(0x0105), b'x')], [b'cert-1'], b'', [(u32(0x0203), b't')], b'key-1', (u32(3), u32(4)))])
    b2 = block_value(fmt, [signer(fmt, [], [b'cert-2'], b'z', [], b'key-2', (u32(5), u32(6)))])
    return [b0, b1, b2], L


def job(jc, spec):
    fmt = spec
    hook.install(symkeys=('androguard.core.apk',))
    from androguard.core import apk as apkmod
    apkmod.unpack = SymStructModule.unpack
    apkmod.pack = SymStructModule.pack
    apkmod.io = SymIOModule
    apkmod.isinstance = sx_isinstance
    apkmod.logger = NullLogger()
    A = apkmod.APK
    vals, L = make(fmt, 's')
    ID = [fresh_uint('id%d' % i, 32) for i in range(4)]
    # a fourth pair with an opaque value behind the three signature blocks: its id is an unknown id or repeats an earlier
    # one (it is never the first block of a scheme, so its value is never parsed)
    vals = vals + [list(b'opaque-4')]
    raw = SBytes(archive([(le_bytes(ID[i], 4), vals[i]) for i in range(4)]))
    keys = [V2] if fmt == 'v2' else [V3, V31]
    pre4 = z3.Or(z3.And(ID[3].e != V2, ID[3].e != V3, ID[3].e != V31), z3.Or([ID[3].e == ID[j].e for j in range(3)]))
    eng = jc.new_engine(pre=[pre4])
    label = 'format ' + fmt

    def go():
        a = A.__new__(A)
        a._APK__raw = raw
        a._v2_blocks = []
        a._is_signed_v2 = a._is_signed_v3 = a._is_signed_v31 = None
        a._v2_signing_data = a._v3_signing_data = a._v31_signing_data = None
        out = dict(flags=(a.is_signed_v2(), a.is_signed_v3(), a.is_signed_v31()), dup=a.has_duplicate_apk_signature_ids(),
                   blocks=[(b.id, b.is_duplicate_id, b.data) for b in a._v2_blocks])
        if fmt == 'v2':
            if a.is_signed_v2():
                out['v2'] = (a.get_certificates_der_v2(), a.get_public_keys_der_v2(), list(a._v2_signing_data))
        else:
            if a.is_signed_v3():
                out['v3'] = (a.get_certificates_der_v3(), a.get_public_keys_der_v3(), list(a._v3_signing_data))
            if a.is_signed_v31():
                out['v31'] = (a.get_certificates_der_v31(), a.get_public_keys_der_v31(), list(a._v31_signing_data))
        return out

    def ext(m):
        return dict(fmt=fmt, ids=[mval(m, x) for x in ID], leaves={k: mbytes(m, v).hex() for k, v in L.items()})
    want_certs = [[L['cert'], list(b'C2'), list(b'cB')], [list(b'cert-1')], [list(b'cert-2')]]
    want_keys = [[L['key'], list(b'kB')], [list(b'key-1')], [list(b'key-2')]]

    def first_with(key):
        """(condition that block i is the first with that id) for i in 0..2"""
        return [z3.And(ID[i].e == key, *[ID[j].e != key for j in range(i)]) for i in range(3)]
    for pc, (kind, r) in eng.explore(go, keep_pcs=True):
        jc.reached(fmt)
        if kind == 'exc':
            jc.obligation(eng, pc, z3.BoolVal(False), ext, label=label, what='raised %r' % (r,))
            continue
        obs = {}
        f2, f3, f31 = r['flags']
        obs['presence flags'] = z3.And(*[(z3.Or([x.e == k for x in ID]) == z3.BoolVal(bool(f))) for f, k in ((f2, V2), (f3, V3), (f31, V31))])
        dupw = z3.Or([ID[i].e == ID[j].e for i in range(4) for j in range(i + 1, 4)])
        obs['duplicate ids flagged'] = dupw == z3.BoolVal(bool(r['dup']))
        bl = r['blocks']
        obs['blocks in file order with their data'] = z3.And([z3.BoolVal(len(bl) == 4)] + [
            z3.And(bv(b[0]) == ID[i].e, beq(list(b[2]), vals[i])) for i, b in enumerate(bl[:4])])
        for name, key in (('v2', V2), ('v3', V3), ('v31', V31)):
            if name not in r:
                continue
            certs, pks, signers = r[name]
            alts = []
            for i, cond in enumerate(first_with(key)):
                ok = len(certs) == len(want_certs[i]) and len(pks) == len(want_keys[i])
                c = [cond, z3.BoolVal(ok)]
                if ok:
                    c += [beq(list(a), b) for a, b in zip(certs, want_certs[i])]
                    c += [beq(list(a), b) for a, b in zip(pks, want_keys[i])]
                    if i == 0 and signers:
                        s = signers[0]
                        sd = s.signed_data
                        dg_ok = len(sd.digests) == 1 and len(s.signatures) == 1
                        c.append(z3.BoolVal(dg_ok))
                        if dg_ok:
                            alg = L['alg'][0].e | (L['alg'][1].e << 8) | (L['alg'][2].e << 16) | (L['alg'][3].e << 24)
                            salg = L['salg'][0].e | (L['salg'][1].e << 8) | (L['salg'][2].e << 16) | (L['salg'][3].e << 24)
                            c += [bv(sd.digests[0][0]) == alg, beq(list(sd.digests[0][1]), L['dig']),
                                  bv(s.signatures[0][0]) == salg, beq(list(s.signatures[0][1]), L['sig']),
                                  beq(list(sd.additional_attributes), L['attr'])]
                            if fmt == 'v3':
                                mn = L['mn'][0].e | (L['mn'][1].e << 8) | (L['mn'][2].e << 16) | (L['mn'][3].e << 24)
                                mx = L['mx'][0].e | (L['mx'][1].e << 8) | (L['mx'][2].e << 16) | (L['mx'][3].e << 24)
                                c += [bv(sd.minSDK) == mn, bv(sd.maxSDK) == mx, bv(s.minSDK) == mn, bv(s.maxSDK) == mx]
                alts.append(z3.And(c))
            obs['%s signers are those of the first block with that id' % name] = z3.Or(alts)
        jc.obligations(eng, pc, obs, ext, label=label, what='%s: violated')
    eng.partition_guard()
    jc.sample(dict(format=fmt, symbolic=['3 pair ids (32 bit)'] + ['%s (%d bytes)' % (k, len(v)) for k, v in L.items()], paths=eng.st.paths))


def run(ctx):
    hook.install(symkeys=('androguard.core.apk',))
    ctx.functions_encoded = FUNCS
    ctx.bounds = dict(pairs=4, pair_ids='all 2^96 id triples of the three signature blocks + a fourth pair whose id is unknown or repeats an earlier one', signers='block 0: 2 signers (leaves of the first symbolic: algorithm '
                      'ids, digest, certificate, attributes, signature, public key, SDK bounds), blocks 1-2: one signer each',
                      lengths='concrete (layout fixed by the template)', formats=['v2', 'v3 / v3.1'])
    ctx.stubs = ['APK built with __new__ over the raw archive tail', 'SymStruct / SymIO', 'NullLogger']
    ctx.assumptions = ['all three pair values are well formed for the format under test; certificates are opaque byte strings']
    ctx.outside_claim = ['symbolic length fields inside the signers', 'more than 3 pairs / 2 signers', 'certificate parsing (asn1crypto)']
    cases = [dict(fmt='v2', ids=[V2, 7, V2]), dict(fmt='v2', ids=[5, V2, V3]), dict(fmt='v3', ids=[V31, V3, V3]), dict(fmt='v3', ids=[1, 2, 3])]
    ctx.diff_unhooked(sys.modules[__name__], cases)
    ctx.expect_reach(['v2', 'v3'])
    ctx.pmap(job, ['v2', 'v3'])


def _concrete(w):
    from androguard.core import apk as apkmod
    A = apkmod.APK
    vals, L = make(w['fmt'], None)
    if 'leaves' in w:
        # rebuild block 0 with the witness leaves
        Lw = {k: list(bytes.fromhex(v)) for k, v in w['leaves'].items()}
        fmt = w['fmt']
        s0 = signer(fmt, [(Lw['alg'], Lw['dig'])], [Lw['cert'], list(b'C2')], Lw['attr'], [(Lw['salg'], Lw['sig'])], Lw['key'], (Lw['mn'], Lw['mx']))
        s0b = signer(fmt, [(u32(0x0104), b'dd')], [b'cB'], b'', [(u32(0x0202), b's')], b'kB', (u32(1), u32(2)))
        vals[0] = block_value(fmt, [s0, s0b])
        L = Lw
    ids = list(w['ids'])
    if len(ids) > 3:
        vals = vals + [list(b'opaque-4')]
    raw = bytes(archive([(u32(ids[i] & 0xffffffff), vals[i]) for i in range(len(ids))]))
    a = A.__new__(A)
    a._APK__raw = raw
    a._v2_blocks = []
    a._is_signed_v2 = a._is_signed_v3 = a._is_signed_v31 = None
    a._v2_signing_data = a._v3_signing_data = a._v31_signing_data = None
    out = dict(flags=[a.is_signed_v2(), a.is_signed_v3(), a.is_signed_v31()], dup=a.has_duplicate_apk_signature_ids(),
               ids=[b.id for b in a._v2_blocks])
    for name, flag, gc, gk in (('v2', a.is_signed_v2(), a.get_certificates_der_v2, a.get_public_keys_der_v2),
                               ('v3', a.is_signed_v3(), a.get_certificates_der_v3, a.get_public_keys_der_v3),
                               ('v31', a.is_signed_v31(), a.get_certificates_der_v31, a.get_public_keys_der_v31)):
        if flag and (name == 'v2') == (w['fmt'] == 'v2'):
            out[name] = [[bytes(x).hex() for x in gc()], [bytes(x).hex() for x in gk()]]
    return out, vals, L


def concrete(c):
    return _concrete(c)[0]


def replay(w):
    try:
        got, vals, L = _concrete(w)
    except Exception as e:
        return True, 'ids %r raised %r' % (w['ids'], e)
    ids = [x & 0xffffffff for x in w['ids']]
    bad = []
    if got['flags'] != [V2 in ids, V3 in ids, V31 in ids]:
        bad.append('flags %r for ids %r' % (got['flags'], [hex(x) for x in ids]))
    if got['dup'] != (len(set(ids)) < len(ids)):
        bad.append('duplicate flag %r' % got['dup'])
    if got['ids'] != ids:
        bad.append('block ids %r' % got['ids'])
    certs = [[bytes(L['cert']), b'C2', b'cB'], [b'cert-1'], [b'cert-2']]
    keys = [[bytes(L['key']), b'kB'], [b'key-1'], [b'key-2']]
    for name, key in (('v2', V2), ('v3', V3), ('v31', V31)):
        if name in got:
            i = ids.index(key)
            exp = [[c.hex() for c in certs[i]], [k.hex() for k in keys[i]]]
            if got[name] != exp:
                bad.append('%s certificates/keys %r, first block with the id holds %r' % (name, got[name], exp))
    return bool(bad), 'ids %r: %s' % ([hex(x) for x in ids], '; '.join(bad))
