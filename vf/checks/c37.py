"""C37 output confinement: the path expressions of export_apps_to_format (valid_class_name, os.path.join,
clean_file_name, the .java/.ag/.<form> names) for symbolic class and method names."""
import sys
import z3
from ..engine import *
from ..sstr import SStr, fresh_char, cpt, sx_str
from ..symre import SymRe
from .. import common, hook
from .c38 import SymPath

FUNCS = ['androguard.cli.main.export_apps_to_format', 'valid_class_name', 'create_directory',
         'androguard.misc.clean_file_name', 'androguard.core.dex.EncodedMethod.get_short_string']
OUT = 'out'


class RecPath(SymPath):
    @staticmethod
    def exists(p):
        return False

    @staticmethod
    def isfile(p):
        return False


class RecOS:
    path = RecPath
    name = 'posix'
    sep = '/'
    created = []

    @staticmethod
    def makedirs(p, *a, **k):
        RecOS.created.append(('dir', p))


class _F:
    def write(self, s): pass
    def __enter__(self): return self
    def __exit__(self, *a): return False


def rec_open(p, mode='r', *a, **k):
    RecOS.created.append(('file', p))
    return _F()


def inside(p):
    """True iff the relative-or-absolute path p stays inside OUT, by walking its segments (branches via the engine)"""
    p = SStr.of(p) if isinstance(p, str) else p
    segs = p.split('/')
    if len(segs) == 0 or not (segs[0] == OUT):
        return False
    depth = 0
    for s in segs[1:]:
        if len(s) == 0 or s == '.':
            continue
        if s == '..':
            depth -= 1
            if depth < 0:
                return False
        else:
            depth += 1
    return True


def inside_concrete(p):
    import posixpath
    n = posixpath.normpath(p)
    return n == OUT or n.startswith(OUT + '/')


class Method:
    def __init__(self, dex, cls, name):
        self.cls, self.name, self.dex = cls, name, dex

    def get_class_name(self): return self.cls
    def get_name(self): return self.name
    def get_descriptor(self): return '()V'
    def get_short_string(self): return self.dex.EncodedMethod.get_short_string(self)


class Cls:
    def __init__(self, n): self.n = n
    def get_name(self): return self.n
    def get_source(self): return ''


class VM:
    def __init__(self, ms): self.ms = ms
    def get_encoded_methods(self): return self.ms
    def get_class(self, n): return Cls(n)


class VMX:
    def get_method(self, m): return m


class Session:
    def __init__(self, vm): self.vm = vm
    def get_objects_dex(self): return [(None, self.vm, VMX())]


def setup():
    dex = common.dexmod()
    from androguard import misc
    from androguard.cli import main
    from androguard.core import bytecode
    misc.re = SymRe
    from ..symre import wrap_compiled
    wrap_compiled(misc)
    misc.os = RecOS
    main.os = RecOS
    main.open = rec_open
    main.print = lambda *a, **k: None
    main.str = sx_str
    dex.str = sx_str
    main.get_bytecodes_method = lambda *a: ''
    bytecode.method2dot = lambda *a, **k: ''
    bytecode.method2format = lambda out, *a, **k: RecOS.created.append(('file', out))
    return dex, main


def job(jc, spec):
    what, n = spec
    dex, main = setup()
    chars = [fresh_char('c%d' % i, 16) for i in range(n)]
    pre = [c.e != 0 for c in chars]
    if what == 'class':
        cls = SStr([ord('L')] + chars + [ord(';')])
        meth = 'm'
        pre.append(z3.BoolVal(True))
    elif what == 'rawclass':
        # any string as the class descriptor (a DEX file may hold a type descriptor that is not of the form L...;)
        cls = SStr(chars)
        meth = 'm'
    else:
        cls = 'LA;'
        meth = SStr(chars)
        # ')' and ' ' take part in get_short_string's own parsing of the descriptor only; keep them out of the name
    name = SStr(chars)
    eng = jc.new_engine(pre=pre)
    label = '%s name of %d symbolic characters' % (what, n)

    def go():
        RecOS.created = []
        m = Method(dex, cls, meth)
        main.export_apps_to_format('in.dex', Session(VM([m])), OUT, form='png')
        created = list(RecOS.created)
        bad = [(k, p) for k, p in created if not inside(p)]
        return created, bad

    def ext(m):
        return dict(what=what, name=name.concrete(m))
    for pc, (kind, r) in eng.explore(go, keep_pcs=True):
        jc.reached(what)
        if kind == 'exc':
            if isinstance(r, (IndexError, TypeError)) and n == 0:
                continue    # empty class body 'L;' is not a class name at all
            jc.obligation(eng, pc, z3.BoolVal(False), ext, label=label, what='export raised %r' % (r,))
            continue
        created, bad = r
        jc.obligation(eng, pc, z3.BoolVal(len(created) >= 4), ext, label=label + ':coverage',
                      what='export did not create the expected files (harness)')
        jc.obligation(eng, pc, z3.BoolVal(not bad), ext, label=label,
                      what='created %s outside the output directory' % (bad[0][0] if bad else ''))
    eng.partition_guard()
    jc.sample(dict(case=label, paths=eng.st.paths))


def run(ctx):
    ctx.functions_encoded = FUNCS
    ncls = 6 if ctx.thorough else 5
    nm = 5 if ctx.thorough else 4
    ctx.bounds = dict(class_body='0..%d symbolic characters (any BMP character except NUL) between L and ;' % ncls,
                      raw_class_descriptor='1..%d symbolic characters as the whole descriptor (not necessarily of the form L...;)' % ncls,
                      method_name='1..%d symbolic characters' % nm, output_dir=OUT, form='png')
    ctx.stubs = ['recording os.makedirs / open / method2format (every created path is captured as a symbolic string)',
                 'posixpath model (join/split), os.path.exists = False', 'SymRe', 'stub session/vm/method objects around the '
                 'real EncodedMethod.get_short_string', 'print -> no-op']
    ctx.assumptions = ['containment = walking the segments of the created path never climbs above the output directory '
                       '(symbolic links are outside the model)']
    ctx.outside_claim = ['the jar and external-decompiler branches', 'names longer than the bounds', 'symlinks']
    setup()
    cases = [['class', 'A/B'], ['class', '../../x'], ['class', './a'], ['class', 'a//b'], ['class', '/abs'],
             ['method', 'm'], ['method', '../../../../x'], ['method', 'a/b']]
    ctx.diff_unhooked(sys.modules[__name__], cases)
    jobs = [('class', n) for n in range(1, ncls + 1)] + [('method', n) for n in range(1, nm + 1)] + \
           [('rawclass', n) for n in range(1, ncls + 1)]
    ctx.expect_reach(['class', 'method', 'rawclass'])
    ctx.pmap(job, jobs)


def _run_concrete(what, name):
    from androguard.cli import main
    from androguard.core import dex, bytecode
    import os
    created = []
    hooked = hasattr(main.os, 'created')
    if not hooked:
        class Rec:
            path = os.path
            name = os.name
            sep = os.sep

            @staticmethod
            def makedirs(p, *a, **k): created.append(['dir', p])
        saved = (main.os, getattr(main, 'open', None), getattr(main, 'print', None))
        main.os = Rec
        main.open = lambda p, *a, **k: (created.append(['file', p]), _F())[1]
        main.print = lambda *a, **k: None
        main.get_bytecodes_method = lambda *a: ''
        bytecode.method2dot = lambda *a, **k: ''
        bytecode.method2format = lambda out, *a, **k: created.append(['file', out])
        real_exists, real_isfile = os.path.exists, os.path.isfile
        os.path.exists = lambda p: False
        os.path.isfile = lambda p: False
    else:
        main.os.created = []
    try:
        cls = 'L%s;' % name if what == 'class' else (name if what == 'rawclass' else 'LA;')
        m = Method(dex, cls, 'm' if what in ('class', 'rawclass') else name)
        main.export_apps_to_format('in.dex', Session(VM([m])), OUT, form='png')
    finally:
        if not hooked:
            os.path.exists, os.path.isfile = real_exists, real_isfile
    if hooked:
        return [[k, p if isinstance(p, str) else ''.join(chr(x) for x in p.c)] for k, p in main.os.created]
    return created


def concrete(c):
    return _run_concrete(c[0], c[1])


def replay(w):
    try:
        created = _run_concrete(w['what'], w['name'])
    except Exception as e:
        return True, '%s name %r: export raised %r' % (w['what'], w['name'], e)
    bad = [p for k, p in created if not inside_concrete(p)]
    return bool(bad) or len(created) < 4, '%s name %r: created %r; outside %r: %r' % (w['what'], w['name'], [p for _, p in created], OUT, bad)
