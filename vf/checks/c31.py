"""C31 (partial): manifest query kernels that can be executed symbolically.
lxml (a C library) carries the manifest tree, so symbolic strings cannot pass through find_tags / get_all_attribute_value;
decided here: APK._format_value (component-name completion) and get_effective_target_sdk_version, on a real APK object
built with __new__ and directly constructed state."""
import sys
import z3
from ..engine import *
from ..sstr import SStr, fresh_char, cpt, sx_str
from .. import common, hook

FUNCS = ['androguard.core.apk.APK._format_value', 'APK.get_effective_target_sdk_version']


def ref_format(value, package):
    """Android's component name completion rule"""
    if value and package:
        if value.startswith('.'):
            return package + value
        if '.' not in value:
            return package + '.' + value
    return value


def ref_effective(target, mn):
    v = target if target else mn
    try:
        return int(v)
    except (ValueError, TypeError):
        return 1


SYMKEYS = ('androguard.core.apk',)


def job(jc, spec):
    kind = spec[0]
    hook.install(symkeys=SYMKEYS)
    from androguard.core import apk as apkmod
    apkmod.int = sx_int
    apkmod.logger = NullLogger()
    if kind == 'format':
        _, nv, npk = spec
        v = SStr([fresh_char('v%d' % i, 16) for i in range(nv)])
        pk = SStr([fresh_char('p%d' % i, 16) for i in range(npk)])
        eng = jc.new_engine()
        label = '_format_value value=%d package=%d chars' % (nv, npk)
        a = apkmod.APK.__new__(apkmod.APK)

        def go():
            a.package = pk if npk else ''
            return a._format_value(v if nv else '')

        def ext(m):
            return dict(kind='format', value=v.concrete(m), package=pk.concrete(m))
        for pc, (k, r) in eng.explore(go, keep_pcs=True):
            jc.reached('format')
            if k == 'exc':
                jc.obligation(eng, pc, z3.BoolVal(False), ext, label=label, what='raised %r' % (r,))
                continue
            r = SStr.of(r) if isinstance(r, str) else r
            if nv == 0 or npk == 0:
                want = v.eq_term(r)
            else:
                first_dot = cpt(v.c[0]) == 46
                no_dot = z3.And([cpt(x) != 46 for x in v.c])
                want = z3.If(first_dot, (pk + v).eq_term(r), z3.If(no_dot, (pk + '.' + v).eq_term(r), v.eq_term(r)))
            jc.obligation(eng, pc, want, ext, label=label, what='component name not completed by the Android rule')
        eng.partition_guard()
    elif kind == 'format2':
        # two APK objects in one process (the answer for one must not depend on what the other was asked before)
        _, nv, npk = spec
        v1 = SStr([fresh_char('v%d' % i, 16) for i in range(nv)])
        v2 = SStr([fresh_char('w%d' % i, 16) for i in range(nv)])
        p1 = SStr([fresh_char('p%d' % i, 16) for i in range(npk)])
        p2 = SStr([fresh_char('q%d' % i, 16) for i in range(npk)])
        eng = jc.new_engine()
        label = '_format_value on two APK objects value=%d package=%d chars' % (nv, npk)
        a1 = apkmod.APK.__new__(apkmod.APK)
        a2 = apkmod.APK.__new__(apkmod.APK)

        def go2():
            a1.package, a2.package = p1, p2
            return a1._format_value(v1), a2._format_value(v2), a1._format_value(v1)

        def ext2(m):
            return dict(kind='format2', value=v1.concrete(m), package=p1.concrete(m), value2=v2.concrete(m), package2=p2.concrete(m))

        def want(pk, v, r):
            r = SStr.of(r) if isinstance(r, str) else r
            first_dot = cpt(v.c[0]) == 46
            no_dot = z3.And([cpt(x) != 46 for x in v.c])
            return z3.If(first_dot, (pk + v).eq_term(r), z3.If(no_dot, (pk + '.' + v).eq_term(r), v.eq_term(r)))
        for pc, (k, r) in eng.explore(go2, keep_pcs=True):
            jc.reached('format')
            if k == 'exc':
                jc.obligation(eng, pc, z3.BoolVal(False), ext2, label=label, what='raised %r' % (r,))
                continue
            jc.obligations(eng, pc, {'first object': want(p1, v1, r[0]), 'second object': want(p2, v2, r[1]),
                                     'first object asked again': want(p1, v1, r[2])}, ext2, label=label,
                           what='%s: component name not completed by the Android rule')
        eng.partition_guard()
    else:
        _, tform, mform = spec

        def mk(tag, form):
            if form is None:
                return None, [], None
            if form == '':
                return '', [], None
            ds = [fresh_char('%s%d' % (tag, i), 8) for i in range(form)]
            val = z3.BitVecVal(0, W)
            for d in ds:
                val = val * 10 + (d.e - 48)
            return SStr(ds), [z3.And(d.e >= 48, d.e <= 57) for d in ds], val
        t, pt, tv = mk('t', tform)
        mn, pm, mv = mk('m', mform)
        eng = jc.new_engine(pre=pt + pm)
        label = 'effective target sdk: target=%r min=%r' % (tform, mform)
        a = apkmod.APK.__new__(apkmod.APK)
        a.get_target_sdk_version = lambda: t
        a.get_min_sdk_version = lambda: mn

        def ext(m):
            return dict(kind='sdk', target=t.concrete(m) if isinstance(t, SStr) else t,
                        min=mn.concrete(m) if isinstance(mn, SStr) else mn)
        for pc, (k, r) in eng.explore(lambda: a.get_effective_target_sdk_version(), keep_pcs=True):
            jc.reached('sdk')
            if k == 'exc':
                jc.obligation(eng, pc, z3.BoolVal(False), ext, label=label, what='raised %r' % (r,))
                continue
            if tv is not None:
                want = bv(r) == tv
            elif mv is not None:
                want = bv(r) == mv
            else:
                want = bv(r) == 1
            jc.obligation(eng, pc, want, ext, label=label, what='effective targetSdkVersion differs from the documented default rule')
        eng.partition_guard()


# queries made in the process before the symbolic runs (differential validation); replays repeat them first, so that a
# witness that depends on what other APK objects were asked earlier reproduces
HISTORY = [['format', '.A', 'p.q'], ['format', 'A', 'p.q'], ['format', 'x.A', 'p.q'], ['format', '', 'p'], ['format', 'A', ''],
           ['sdk', '30', '21'], ['sdk', None, '21'], ['sdk', None, None], ['sdk', '', '7'], ['sdk', 'x', None]]


def run(ctx):
    hook.install(symkeys=SYMKEYS)
    ctx.functions_encoded = FUNCS
    ctx.bounds = dict(format_value='value 0..6 and package 0..4 fully symbolic BMP characters',
                      effective_sdk='target / min each None, empty, or 1..3 symbolic decimal digits')
    ctx.stubs = ['APK built with __new__; getters replaced by direct state', 'SStr', 'int() shim',
                 'dictionaries indexed with symbolic keys inside androguard.core.apk are compared with == (side table, reset per path)']
    ctx.assumptions = ['completion rule: leading dot -> package + name; no dot -> package + "." + name; otherwise unchanged']
    ctx.outside_claim = ['everything that walks the lxml tree (find_tags, get_all_attribute_value, permissions, activities, '
                         'services, receivers, providers, main activity, features, libraries, version code/name): lxml is a '
                         'C library, symbolic strings cannot pass through it; typed attribute values are C26/C27']
    ctx.diff_unhooked(sys.modules[__name__], HISTORY)
    jobs = [('format', nv, npk) for nv in range(0, 7) for npk in (0, 1, 4)]
    jobs += [('format2', nv, npk) for nv in (1, 2, 3) for npk in (1, 2)]
    jobs += [('sdk', t, m) for t in (None, '', 1, 2, 3) for m in (None, '', 1, 2)]
    ctx.expect_reach(['format', 'sdk'])
    ctx.pmap(job, jobs)
    ctx.sample(dict(kernels=FUNCS, jobs=len(jobs)))


def concrete(c):
    from androguard.core import apk as apkmod
    a = apkmod.APK.__new__(apkmod.APK)
    if c[0] == 'format':
        a.package = c[2]
        return a._format_value(c[1])
    a.get_target_sdk_version = lambda: c[1]
    a.get_min_sdk_version = lambda: c[2]
    return a.get_effective_target_sdk_version()


def replay(w):
    try:
        for h in HISTORY:
            concrete(h)
        if w['kind'] == 'format2':
            from androguard.core import apk as apkmod
            a1, a2 = apkmod.APK.__new__(apkmod.APK), apkmod.APK.__new__(apkmod.APK)
            a1.package, a2.package = w['package'], w['package2']
            got = [a1._format_value(w['value']), a2._format_value(w['value2']), a1._format_value(w['value'])]
            exp = [ref_format(w['value'], w['package']), ref_format(w['value2'], w['package2']), ref_format(w['value'], w['package'])]
        elif w['kind'] == 'format':
            got = concrete(['format', w['value'], w['package']])
            exp = ref_format(w['value'], w['package'])
        else:
            got = concrete(['sdk', w['target'], w['min']])
            exp = ref_effective(w['target'], w['min'])
    except Exception as e:
        return True, '%r raised %r' % (w, e)
    return got != exp, '%r -> %r, rule gives %r (after the queries %r on other APK objects of the process)' % (w, got, exp, HISTORY[:5])
