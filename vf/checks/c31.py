"""C31 (partial): manifest query kernels that can be executed symbolically.
lxml (a C library) carries the manifest tree, so symbolic strings cannot pass through find_tags / get_all_attribute_value;
decided here: APK._format_value (component-name completion) and get_effective_target_sdk_version, on a real APK object
built with __new__ and directly constructed state."""
import sys
import z3
from ..engine import *
from ..sstr import SStr, fresh_char, cpt, sx_str
from .. import common, hook

FUNCS = ['androguard.core.apk.APK._format_value', 'APK.get_effective_target_sdk_version']


def ref_format(value, package):
    """Android's component name completion rule"""
    if value and package:
        if value.startswith('.'):
            return package + value
        if '.' not in value:
            return package + '.' + value
    return value


def ref_effective(target, mn):
    v = target if target else mn
    try:
        return int(v)
    except (ValueError, TypeError):
        return 1


SYMKEYS = ('androguard.core.apk',)

# ------------------------------------------------------------------ manifest models (enumerated through the executor)
A_NS = 'http://schemas.android.com/apk/res/android'
PKG = 'org.ex.app'
NAMES = ['.ui.Main', 'Main', 'org.ex.app.Main', 'org.other.X', 'a.b.C$D', '.Main$Inner']       # the last two: thorough tier only
SECOND = ['none', 'alias+launcher', 'activity+launcher', 'alias']
SECOND_NAMES = ['.Alias', 'Alias', 'org.ex.app.zz.Z']
ENABLED = [None, True, False]
PERMS = [[], [['android.permission.INTERNET', None]], [['android.permission.INTERNET', None], ['android.permission.INTERNET', 22]],
         [['android.permission.CAMERA', 28], ['a.b.CUSTOM', None]],
         [['x.y.Z', 1], ['x.y.Z', None], ['android.permission.CAMERA', None]]]          # the last one: thorough tier only
SDKS = [(None, None, None), (21, 30, None), (7, None, 19), (None, 33, None), (None, 0x7FFFFFFF, None)]
SLOTS_T = [len(NAMES), len(SECOND), len(SECOND_NAMES), len(ENABLED), len(NAMES), len(PERMS), len(SDKS)]
SLOTS = [4, len(SECOND), len(SECOND_NAMES), len(ENABLED), 4, 4, len(SDKS)]


def complete(name):
    if name.startswith('.'):
        return PKG + name
    if '.' not in name:
        return PKG + '.' + name
    return name


def manifest_model(ch):
    a_name, second, s_name, enabled, svc, perms, sdk = (NAMES[ch[0]], SECOND[ch[1]], SECOND_NAMES[ch[2]], ENABLED[ch[3]], NAMES[ch[4]],
                                                         PERMS[ch[5]], SDKS[ch[6]])
    return dict(activity=a_name, second=second, second_name=s_name, enabled=enabled, service=svc, perms=perms, sdk=sdk)


def manifest_bytes(M):
    from .. import axmlw

    def E(name, attrs=(), kids=()):
        return dict(ns=None, name=name, attrs=list(attrs), kids=list(kids), comment=None)

    def S(name, v, ns=A_NS):
        return dict(ns=ns, name=name, type=3, value=v)

    def V(name, t, d, ns=A_NS):
        return dict(ns=ns, name=name, type=t, data=d, raw=None)

    def launcher():
        return E('intent-filter', [], [E('action', [S('name', 'android.intent.action.MAIN')]),
                                       E('category', [S('name', 'android.intent.category.LAUNCHER')])])
    act_attrs = [S('name', M['activity'])]
    if M['enabled'] is not None:
        act_attrs.append(V('enabled', 0x12, 0xffffffff if M['enabled'] else 0))
    app = [E('activity', act_attrs, [launcher()])]
    if M['second'] == 'alias+launcher':
        app.append(E('activity-alias', [S('name', M['second_name']), S('targetActivity', M['activity'])], [launcher()]))
    elif M['second'] == 'alias':
        app.append(E('activity-alias', [S('name', M['second_name']), S('targetActivity', M['activity'])]))
    elif M['second'] == 'activity+launcher':
        app.insert(0, E('activity', [S('name', M['second_name'])], [launcher()]))
    app += [E('service', [S('name', M['service'])]), E('receiver', [S('name', 'org.other.R')]), E('provider', [S('name', '.P')]),
            E('uses-library', [S('name', 'org.apache.http.legacy')])]
    top = []
    mn, tg, mx = M['sdk']
    if (mn, tg, mx) != (None, None, None):
        top.append(E('uses-sdk', [V(n, 0x10, v) for n, v in (('minSdkVersion', mn), ('targetSdkVersion', tg), ('maxSdkVersion', mx)) if v is not None]))
    for name, mxs in M['perms']:
        top.append(E('uses-permission', [S('name', name)] + ([V('maxSdkVersion', 0x10, mxs)] if mxs is not None else [])))
    top.append(E('uses-feature', [S('name', 'android.hardware.camera')]))
    doc = dict(utf8=True, namespaces=[('android', A_NS)], resids={},
               root=E('manifest', [S('package', PKG, ns=None), V('versionCode', 0x10, 7), S('versionName', '1.2-beta')], top + [E('application', [], app)]))
    blob, _ = axmlw.write(doc)
    import io
    import zipfile
    z = io.BytesIO()
    with zipfile.ZipFile(z, 'w') as f:
        f.writestr('AndroidManifest.xml', blob)
    return z.getvalue()


def manifest_expected(M):
    acts = [complete(M['activity'])]
    launchers = []
    if M['enabled'] is not False:
        launchers.append(complete(M['activity']))
    if M['second'] == 'activity+launcher':
        acts.insert(0, complete(M['second_name']))
        launchers.append(complete(M['second_name']))
    elif M['second'] == 'alias+launcher':
        launchers.append(complete(M['second_name']))
    good = sorted(set(launchers) & set(acts))
    main = good[0] if good else (sorted(set(launchers))[0] if launchers else None)
    mn, tg, mx = M['sdk']
    st = lambda v: None if v is None else str(v)
    eff = tg if tg is not None else (mn if mn is not None else 1)
    names = [n for n, _ in M['perms']]
    return dict(package=PKG, version_code='7', version_name='1.2-beta', permissions=sorted(set(names)), permissions_unique=True,
                uses_permissions=sorted([[n, m] for n, m in M['perms']], key=repr), activities=acts, services=[complete(M['service'])], receivers=['org.other.R'],
                providers=[PKG + '.P'], main_activity=main, main_candidates=sorted(set(launchers)), min_sdk=st(mn), target_sdk=st(tg), max_sdk=st(mx),
                effective_target=eff, features=['android.hardware.camera'], libraries=['org.apache.http.legacy'])


OTHER_GETTERS = ['get_app_name', 'get_app_icon', 'get_main_activities', 'get_declared_permissions', 'get_details_permissions',
                 'get_requested_aosp_permissions', 'get_requested_third_party_permissions', 'get_files', 'is_valid_APK',
                 'get_signature_names', 'get_intent_filters_dummy']


def manifest_observed(apkmod, raw):
    """the queries twice on one object: right after parsing, and again after the other public getters were used"""
    a = apkmod.APK(raw, raw=True)
    first = manifest_snapshot(a)
    for g in OTHER_GETTERS:
        try:
            getattr(a, g)()
        except Exception:
            pass
    second = manifest_snapshot(a)
    return first, second


def manifest_snapshot(a):
    p = a.get_permissions()
    return dict(package=a.get_package(), version_code=a.get_androidversion_code(), version_name=a.get_androidversion_name(),
                permissions=sorted(set(p)), permissions_unique=len(p) == len(set(p)), uses_permissions=sorted([list(x) for x in a.uses_permissions], key=repr),
                activities=list(a.get_activities()), services=list(a.get_services()), receivers=list(a.get_receivers()),
                providers=list(a.get_providers()), main_activity=a.get_main_activity(), min_sdk=a.get_min_sdk_version(),
                target_sdk=a.get_target_sdk_version(), max_sdk=a.get_max_sdk_version(), effective_target=a.get_effective_target_sdk_version(),
                features=list(a.get_features()), libraries=list(a.get_libraries()))


def manifest_diff(obs2, exp):
    bad = manifest_diff1(obs2[0], exp)
    return bad + ['after other getters were used on the same object: ' + b for b in manifest_diff1(obs2[1], exp)]


def manifest_diff1(obs, exp):
    bad = []
    for k, v in obs.items():
        w = exp[k]
        if isinstance(v, list) and isinstance(w, list) and k != 'uses_permissions':
            v, w = sorted(v), sorted(w)           # the listings are compared as multisets (their order is not part of the property)
        if k == 'main_activity' and len(exp['main_candidates']) > 1:
            # several launcher entries: a real activity is preferred over an alias, ties in lexical order (the rule the
            # code documents); any other answer, or one outside the candidates, is wrong
            if v != w:
                bad.append('main activity %r, the enabled MAIN/LAUNCHER entries are %r (expected %r)' % (v, exp['main_candidates'], w))
            continue
        if v != w:
            bad.append('%s: reported %r, the manifest declares %r' % (k, v, w))
    return bad


def job(jc, spec):
    kind = spec[0]
    hook.install(symkeys=SYMKEYS)
    from androguard.core import apk as apkmod
    apkmod.int = sx_int
    apkmod.logger = NullLogger()
    if kind == 'format':
        _, nv, npk = spec
        v = SStr([fresh_char('v%d' % i, 16) for i in range(nv)])
        pk = SStr([fresh_char('p%d' % i, 16) for i in range(npk)])
        eng = jc.new_engine()
        label = '_format_value value=%d package=%d chars' % (nv, npk)
        a = apkmod.APK.__new__(apkmod.APK)

        def go():
            a.package = pk if npk else ''
            return a._format_value(v if nv else '')

        def ext(m):
            return dict(kind='format', value=v.concrete(m), package=pk.concrete(m))
        for pc, (k, r) in eng.explore(go, keep_pcs=True):
            jc.reached('format')
            if k == 'exc':
                jc.obligation(eng, pc, z3.BoolVal(False), ext, label=label, what='raised %r' % (r,))
                continue
            r = SStr.of(r) if isinstance(r, str) else r
            if nv == 0 or npk == 0:
                want = v.eq_term(r)
            else:
                first_dot = cpt(v.c[0]) == 46
                no_dot = z3.And([cpt(x) != 46 for x in v.c])
                want = z3.If(first_dot, (pk + v).eq_term(r), z3.If(no_dot, (pk + '.' + v).eq_term(r), v.eq_term(r)))
            jc.obligation(eng, pc, want, ext, label=label, what='component name not completed by the Android rule')
        eng.partition_guard()
    elif kind == 'manifest':
        # whole APK objects from enumerated manifest models (lxml and the zip reader run concretely: the executor only
        # enumerates the model choices here, no solver query decides)
        first = spec[1]
        eng = jc.new_engine(max_paths=10 ** 6)
        label = 'manifest models'

        def gom():
            ch = list(first) + [engine().choose(n) for n in (SLOTS_T if len(spec) > 2 and spec[2] else SLOTS)[len(first):]]
            M = manifest_model(ch)
            return ch, manifest_diff(manifest_observed(apkmod, manifest_bytes(M)), manifest_expected(M))
        for pc, (k, r) in eng.explore(gom):
            jc.reached('manifest')
            eng.st.obligations += 1
            if k == 'exc':
                jc.concrete_violation(dict(kind='manifest', choices=None, note=repr(r)), label=label, what='APK raised %r' % (r,))
                continue
            ch, bad = r
            if bad:
                jc.concrete_violation(dict(kind='manifest', choices=ch), label=label, what=bad[0])
            else:
                eng.st.discharged += 1
        if first == (0, 0):
            jc.sample(dict(case='manifest models with first choices %r' % (first,), models=eng.st.paths, example=manifest_model([0, 1, 0, 0, 1, 2, 1])))
    elif kind == 'format2':
        # two APK objects in one process (the answer for one must not depend on what the other was asked before)
        _, nv, npk = spec
        v1 = SStr([fresh_char('v%d' % i, 16) for i in range(nv)])
        v2 = SStr([fresh_char('w%d' % i, 16) for i in range(nv)])
        p1 = SStr([fresh_char('p%d' % i, 16) for i in range(npk)])
        p2 = SStr([fresh_char('q%d' % i, 16) for i in range(npk)])
        eng = jc.new_engine()
        label = '_format_value on two APK objects value=%d package=%d chars' % (nv, npk)
        a1 = apkmod.APK.__new__(apkmod.APK)
        a2 = apkmod.APK.__new__(apkmod.APK)

        def go2():
            a1.package, a2.package = p1, p2
            return a1._format_value(v1), a2._format_value(v2), a1._format_value(v1)

        def ext2(m):
            return dict(kind='format2', value=v1.concrete(m), package=p1.concrete(m), value2=v2.concrete(m), package2=p2.concrete(m))

        def want(pk, v, r):
            r = SStr.of(r) if isinstance(r, str) else r
            first_dot = cpt(v.c[0]) == 46
            no_dot = z3.And([cpt(x) != 46 for x in v.c])
            return z3.If(first_dot, (pk + v).eq_term(r), z3.If(no_dot, (pk + '.' + v).eq_term(r), v.eq_term(r)))
        for pc, (k, r) in eng.explore(go2, keep_pcs=True):
            jc.reached('format')
            if k == 'exc':
                jc.obligation(eng, pc, z3.BoolVal(False), ext2, label=label, what='raised %r' % (r,))
                continue
            jc.obligations(eng, pc, {'first object': want(p1, v1, r[0]), 'second object': want(p2, v2, r[1]),
                                     'first object asked again': want(p1, v1, r[2])}, ext2, label=label,
                           what='%s: component name not completed by the Android rule')
        eng.partition_guard()
    else:
        _, tform, mform = spec

        def mk(tag, form):
            if form is None:
                return None, [], None
            if form == '':
                return '', [], None
            ds = [fresh_char('%s%d' % (tag, i), 8) for i in range(form)]
            val = z3.BitVecVal(0, W)
            for d in ds:
                val = val * 10 + (d.e - 48)
            return SStr(ds), [z3.And(d.e >= 48, d.e <= 57) for d in ds], val
        t, pt, tv = mk('t', tform)
        mn, pm, mv = mk('m', mform)
        eng = jc.new_engine(pre=pt + pm)
        label = 'effective target sdk: target=%r min=%r' % (tform, mform)
        a = apkmod.APK.__new__(apkmod.APK)
        a.get_target_sdk_version = lambda: t
        a.get_min_sdk_version = lambda: mn

        def ext(m):
            return dict(kind='sdk', target=t.concrete(m) if isinstance(t, SStr) else t,
                        min=mn.concrete(m) if isinstance(mn, SStr) else mn)
        for pc, (k, r) in eng.explore(lambda: a.get_effective_target_sdk_version(), keep_pcs=True):
            jc.reached('sdk')
            if k == 'exc':
                jc.obligation(eng, pc, z3.BoolVal(False), ext, label=label, what='raised %r' % (r,))
                continue
            if tv is not None:
                want = bv(r) == tv
            elif mv is not None:
                want = bv(r) == mv
            else:
                want = bv(r) == 1
            jc.obligation(eng, pc, want, ext, label=label, what='effective targetSdkVersion differs from the documented default rule')
        eng.partition_guard()


# queries made in the process before the symbolic runs (differential validation); replays repeat them first, so that a
# witness that depends on what other APK objects were asked earlier reproduces
HISTORY = [['format', '.A', 'p.q'], ['format', 'A', 'p.q'], ['format', 'x.A', 'p.q'], ['format', '', 'p'], ['format', 'A', ''],
           ['sdk', '30', '21'], ['sdk', None, '21'], ['sdk', None, None], ['sdk', '', '7'], ['sdk', 'x', None]]


def run(ctx):
    hook.install(symkeys=SYMKEYS)
    ctx.functions_encoded = FUNCS
    ctx.bounds = dict(format_value='value 0..6 and package 0..4 fully symbolic BMP characters',
                      effective_sdk='target / min each None, empty, or 1..3 symbolic decimal digits')
    ctx.stubs = ['APK built with __new__; getters replaced by direct state', 'SStr', 'int() shim',
                 'dictionaries indexed with symbolic keys inside androguard.core.apk are compared with == (side table, reset per path)']
    ctx.assumptions = ['completion rule: leading dot -> package + name; no dot -> package + "." + name; otherwise unchanged']
    ctx.outside_claim = ['everything that walks the lxml tree (find_tags, get_all_attribute_value, permissions, activities, '
                         'services, receivers, providers, main activity, features, libraries, version code/name): lxml is a '
                         'C library, symbolic strings cannot pass through it; typed attribute values are C26/C27']
    ctx.diff_unhooked(sys.modules[__name__], HISTORY)
    jobs = [('format', nv, npk) for nv in range(0, 7) for npk in (0, 1, 4)]
    jobs += [('format2', nv, npk) for nv in (1, 2, 3) for npk in (1, 2)]
    slots = SLOTS_T if ctx.thorough else SLOTS
    jobs += [('manifest', (a, b), ctx.thorough) for a in range(slots[0]) for b in range(slots[1])]
    jobs += [('sdk', t, m) for t in (None, '', 1, 2, 3) for m in (None, '', 1, 2)]
    ctx.expect_reach(['format', 'sdk', 'manifest'])
    ctx.pmap(job, jobs)
    ctx.sample(dict(kernels=FUNCS, jobs=len(jobs)))


def concrete(c):
    from androguard.core import apk as apkmod
    a = apkmod.APK.__new__(apkmod.APK)
    if c[0] == 'format':
        a.package = c[2]
        return a._format_value(c[1])
    a.get_target_sdk_version = lambda: c[1]
    a.get_min_sdk_version = lambda: c[2]
    return a.get_effective_target_sdk_version()


def replay(w):
    if w.get('kind') == 'manifest':
        if w.get('choices') is None:
            return False, w.get('note')
        from androguard.core import apk as apkmod
        M = manifest_model(w['choices'])
        try:
            bad = manifest_diff(manifest_observed(apkmod, manifest_bytes(M)), manifest_expected(M))
        except Exception as e:
            return True, 'manifest model %r: APK raised %r' % (M, e)
        return bool(bad), 'manifest model %r: %s' % (M, '; '.join(bad[:3]))
    try:
        for h in HISTORY:
            concrete(h)
        if w['kind'] == 'format2':
            from androguard.core import apk as apkmod
            a1, a2 = apkmod.APK.__new__(apkmod.APK), apkmod.APK.__new__(apkmod.APK)
            a1.package, a2.package = w['package'], w['package2']
            got = [a1._format_value(w['value']), a2._format_value(w['value2']), a1._format_value(w['value'])]
            exp = [ref_format(w['value'], w['package']), ref_format(w['value2'], w['package2']), ref_format(w['value'], w['package'])]
        elif w['kind'] == 'format':
            got = concrete(['format', w['value'], w['package']])
            exp = ref_format(w['value'], w['package'])
        else:
            got = concrete(['sdk', w['target'], w['min']])
            exp = ref_effective(w['target'], w['min'])
    except Exception as e:
        return True, '%r raised %r' % (w, e)
    return got != exp, '%r -> %r, rule gives %r (after the queries %r on other APK objects of the process)' % (w, got, exp, HISTORY[:5])
