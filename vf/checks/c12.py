"""C12: see vf/cfg.py (shared skeleton/CFG harness; this module selects the obligations of C12)."""
from .. import cfg


def run(ctx):
    cfg.run(ctx, 'C12')


concrete = cfg.concrete
replay = cfg.replay
