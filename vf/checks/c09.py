"""C09 header rejection: HeaderItem / DalvikPacker / DEX._load order on a fully symbolic 112-byte header,
Adler-32 as an uninterpreted value, plus the single-byte-change lemma on a bit-precise Adler-32 model."""
import os
import sys
import zlib
import random
import z3
from ..engine import *
from .. import common, hook

FUNCS = ['androguard.core.dex.DEX.__init__', 'DEX._load', 'HeaderItem.__init__', 'DalvikPacker.__init__',
         'androguard.util.read_at']


def ref_valid(bs, adler):
    """spec acceptance of a header (permissive on the three version characters, see DESIGN 5a)"""
    if len(bs) < 112:
        return False
    magic_ok = bs[0:2] == b'de' and bs[2] in (0x78, 0x79) and bs[3] == 0x0a and bs[7] == 0
    endian = int.from_bytes(bs[40:44], 'little')
    hsize = int.from_bytes(bs[36:40], 'little')
    ck = int.from_bytes(bs[8:12], 'little')
    return magic_ok and endian == 0x12345678 and hsize == 0x70 and ck == adler


class MapRecorder:
    made = []

    def __init__(self, cm, off, buff):
        MapRecorder.made.append(off)

    def get_item_type(self, t):
        return None


class NondetInt:
    """int() of the three version characters: arbitrary outcome (value or ValueError) - an environment stub"""

    def __call__(self, s, base=10):
        if isinstance(s, (str, bytes, int)) and not hasattr(s, 'c'):
            return int(s, base) if isinstance(s, (str, bytes)) else int(s)
        if engine().choose(2) == 0:
            raise ValueError("invalid literal for int()")
        return 35


def run(ctx):
    dex = common.dexmod()
    ctx.functions_encoded = FUNCS
    ctx.bounds = dict(header='all 2^896 contents of the 112 header bytes; body 16 symbolic bytes',
                      adler32='uninterpreted 32-bit result + lemma for buffers up to 2^24 bytes',
                      short_buffers='lengths 0, 1, 43, 111 with symbolic content')
    ctx.stubs = ['zlib.adler32 -> uninterpreted 32-bit value, argument recorded', 'MapList -> recorder (call-order monitor)',
                 'int() of the version characters -> nondeterministic (value | ValueError)', 'SymStruct', 'SymIO']
    ctx.assumptions = ["magic accepted iff 'dex\\n' or 'dey\\n' + three arbitrary version bytes + NUL (version leniency is "
                       "deliberate in the code and the property does not speak about versions)",
                       'zlib.adler32 equals the Adler-32 definition (checked on random buffers each run)']
    ctx.outside_claim = ['the C implementation of zlib.adler32 beyond the sampled comparison']
    dex.MapList = MapRecorder
    dex.int = NondetInt()

    Hb = [fresh_byte('h%d' % i) for i in range(112)]
    body = [fresh_byte('d%d' % i) for i in range(16)]
    items = Hb + body
    CK = fresh_uint('adler', 32)

    def le(i, n):
        e = z3.BitVecVal(0, W)
        for k in range(n):
            e = e | (Hb[i + k].e << (8 * k))
        return e
    magic_ok = z3.And(Hb[0].e == ord('d'), Hb[1].e == ord('e'), z3.Or(Hb[2].e == 0x78, Hb[2].e == 0x79),
                      Hb[3].e == 0x0a, Hb[7].e == 0)
    valid = z3.And(magic_ok, le(40, 4) == 0x12345678, le(36, 4) == 0x70, le(8, 4) == CK.e)

    def ext(m):
        return dict(kind='header', bytes=bytes(mval(m, x) for x in items).hex(), adler=mval(m, CK) & 0xFFFFFFFF)

    eng = ctx.new_engine()

    def go():
        MapRecorder.made = []
        hook.ZL.calls = []
        hook.ZL.value = CK
        try:
            d = dex.DEX(SBytes(items))
            out = ('ok', None)
        except (ValueError, NotImplementedError) as e:
            out = ('rejected', type(e).__name__)
        return out + (len(MapRecorder.made), list(hook.ZL.calls))
    accepted = rejected = 0
    for pc, (kind, r) in eng.explore(go, keep_pcs=True):
        if kind == 'exc':
            ctx.obligation(eng, pc, z3.BoolVal(False), ext, label='header', what='unexpected exception %r' % (r,))
            continue
        status, exc, nmaps, calls = r
        if status == 'ok':
            accepted += 1
            ctx.reached('accepted')
            same_arg = len(calls) == 1 and len(calls[0]) == len(items) - 12 and all(
                (a is b) or (isinstance(a, int) and isinstance(b, int) and a == b) or
                (isinstance(a, SInt) and isinstance(b, SInt) and a.e.eq(b.e))
                for a, b in zip(list(calls[0]), items[12:]))
            ctx.obligations(eng, pc, {'accepted header is valid': valid,
                                      'adler32 computed over exactly buf[12:]': z3.BoolVal(same_arg)}, ext,
                            label='header', what='%s: violated')
            ctx.sample(dict(outcome='accepted', path_decisions=len(pc)))
        else:
            rejected += 1
            ctx.reached('rejected')
            # nothing may be parsed before the error (the property does not require valid headers to be accepted:
            # e.g. more than 65535 type ids is refused too)
            ctx.obligations(eng, pc, {'structure parsed before rejection': z3.BoolVal(nmaps == 0)}, ext,
                            label='header', what='%s')
            ctx.sample(dict(outcome='rejected with ' + exc, path_decisions=len(pc)), limit=14)
    eng.partition_guard()
    ctx.info['header_paths'] = dict(accepted=accepted, rejected=rejected)

    # ---- short buffers
    for n in (0, 1, 43, 111):
        sb = [fresh_byte('s%d_%d' % (n, i)) for i in range(n)]
        eng = ctx.new_engine()

        def go_s():
            MapRecorder.made = []
            hook.ZL.value = CK
            try:
                dex.DEX(SBytes(sb) if n else b'')
                return 'ok'
            except (ValueError, NotImplementedError):
                return 'rejected' if not MapRecorder.made else 'parsed-then-rejected'
        for pc, (kind, r) in eng.explore(go_s):
            ctx.reached('short')
            ctx.obligation(eng, pc, z3.BoolVal(kind == 'ok' and r == 'rejected'),
                           lambda m, sb=sb: dict(kind='short', bytes=bytes(mval(m, x) for x in sb).hex()),
                           label='short buffer', what='buffer shorter than the header not rejected (%r)' % (r,))

    # ---- lemma: a single-byte change changes Adler-32 (bit-precise definition, unbounded position)
    S, delta, n, old = z3.Ints('S delta n old')
    s = z3.Solver()
    s.set('timeout', SOLVER_TIMEOUT_MS)
    # S = sum of all bytes, one byte `old` becomes old+delta; low half a = (1+S) mod 65521
    s.add(n >= 1, n <= 1 << 24, S >= 0, S <= 255 * n, old >= 0, old <= 255, old <= S,
          delta != 0, old + delta >= 0, old + delta <= 255)
    s.add((1 + S) % 65521 == (1 + S + delta) % 65521)
    import time
    t = time.time()
    r = s.check()
    ctx.stats.queries += 1
    ctx.stats.solver_s += time.time() - t
    ctx.stats.obligations += 1
    if str(r) == 'unsat':
        ctx.stats.unsat += 1
        ctx.stats.discharged += 1
    elif str(r) == 'sat':
        ctx.stats.sat += 1
        raise Inconclusive("Adler-32 single-byte lemma has a counter-model: %s" % s.model())
    else:
        ctx.stats.unknown += 1
    ctx.info['lemma'] = 'forall n<=2^24, byte change delta!=0: (1+S) mod 65521 != (1+S+delta) mod 65521  -> ' + str(r)

    # ---- zlib vs the definition, and end-to-end concrete single-byte changes of a shipped file
    rnd = random.Random(ctx.seed)
    for _ in range(200):
        b = rnd.randbytes(rnd.randrange(0, 600))
        a, bb = 1, 0
        for x in b:
            a = (a + x) % 65521
            bb = (bb + a) % 65521
        if zlib.adler32(b) != (bb << 16 | a):
            raise Inconclusive("zlib.adler32 differs from the definition")
        ctx.validated += 1
    path = os.path.join(common.REPO, 'tests/data/APK/Test.dex')
    raw = open(path, 'rb').read()
    offs = list(range(12, len(raw))) if ctx.thorough else sorted(set(list(range(12, 120)) + rnd.sample(range(120, len(raw)), 150)))
    cases = [dict(file='tests/data/APK/Test.dex', off=o, xor=x) for o in offs for x in ((0x01, 0x80) if ctx.thorough else (rnd.choice([1, 2, 0x80, 0xff]),))]
    # the unchanged file is parsed first: every changed copy is then judged in a process that has already accepted the
    # original (replays repeat that history)
    cases.insert(0, dict(file='tests/data/APK/Test.dex', off=0, xor=0))
    # (a disagreement between the hooked and the unhooked module on a changed file is not raised here: the loop below
    # judges every case, and its witnesses are replayed on the unhooked module anyway)
    ctx.diff_unhooked(sys.modules[__name__], cases, collect=True)
    for c in cases:
        got = concrete(c)
        want = 'accepted' if c['xor'] == 0 else 'rejected'
        if got != want:
            ctx.concrete_violation(dict(kind='flip', **c), label='single-byte change',
                                   what='changed file %s' % got)
    ctx.info['single_byte_changes_run_concretely'] = len(cases) - 1


def concrete(c):
    from androguard.core import dex
    raw = bytearray(open(os.path.join(common.REPO, c['file']), 'rb').read())
    raw[c['off']] ^= c['xor']
    saved = getattr(dex.zlib, 'value', None)
    if hasattr(dex.zlib, 'calls'):          # hooked module: give the adler stub its real value
        dex.zlib.value = zlib.adler32(bytes(raw[12:]))
    try:
        try:
            dex.DEX(bytes(raw))
            return 'accepted'
        except (ValueError, NotImplementedError):
            return 'rejected'
        except Exception as e:
            return 'other:' + type(e).__name__
    finally:
        if hasattr(dex.zlib, 'calls'):
            dex.zlib.value = saved


def replay(w):
    from androguard.core import dex
    if w['kind'] == 'flip':
        first = concrete(dict(file=w['file'], off=0, xor=0))
        got = concrete(w)
        return got != 'rejected', 'after the unchanged %s was %s in the same process: byte %d xor 0x%02x: file %s' % (
            w['file'], first, w['off'], w['xor'], got)
    bs = bytes.fromhex(w['bytes'])
    made = []
    real_adler = zlib.adler32

    class Rec:
        def __init__(self, cm, off, buff): made.append(off)
        def get_item_type(self, t): return None
    saved = dex.MapList
    dex.MapList = Rec
    if w['kind'] == 'header':
        # the witness fixes the value adler32 returns (it is an uninterpreted input of the model): replay with
        # a zlib whose adler32 returns that value, which is sound for showing which comparison the code makes
        calls = []

        class Z:
            @staticmethod
            def adler32(b, *a):
                calls.append(bytes(b))
                return w['adler']
        dex.zlib = Z
    try:
        try:
            dex.DEX(bs)
            got = 'accepted'
        except (ValueError, NotImplementedError) as e:
            got = 'rejected' if not made else 'parsed-then-rejected'
        except Exception as e:
            got = 'other:' + type(e).__name__
    finally:
        dex.MapList = saved
        dex.zlib = zlib
    want = 'accepted' if ref_valid(bs, w.get('adler')) else 'rejected'
    if w['kind'] == 'header' and got == 'accepted' and calls != [bs[12:]]:
        return True, 'header accepted although Adler-32 was not computed over exactly buf[12:] (%d adler32 calls)' % len(calls)
    return got != want, 'header %s.. adler=%s: %s, expected %s' % (w['bytes'][:32], w.get('adler'), got, want)
