"""import hook: loads androguard.* from /repo's working tree with the minimal AST rewrite of DESIGN 2.1."""
import sys
import ast
import os
import builtins
import importlib.machinery
from . import engine as E
from .engine import SInt, SBytes, SBool

REPO = os.environ.get('VERIF_REPO', '/repo')
OPTIONS = {'sets': False, 'set_modules': ('androguard.decompiler.',), 'symkey_modules': ()}
FILES_LOADED = []


class Rewrite(ast.NodeTransformer):
    def __init__(self, modname):
        self.mod = modname

    def visit_BinOp(self, node):
        self.generic_visit(node)
        if isinstance(node.op, ast.Mod):
            return ast.copy_location(ast.Call(ast.Name('sx__mod', ast.Load()), [node.left, node.right], []), node)
        return node

    def visit_Compare(self, node):
        self.generic_visit(node)
        if len(node.ops) == 1 and isinstance(node.ops[0], (ast.In, ast.NotIn)):
            call = ast.Call(ast.Name('sx__in', ast.Load()), [node.left, node.comparators[0]], [])
            if isinstance(node.ops[0], ast.NotIn):
                call = ast.UnaryOp(ast.Not(), call)
            return ast.copy_location(call, node)
        return node

    def visit_Call(self, node):
        self.generic_visit(node)
        f = node.func
        if self._symkeys_on() and isinstance(f, ast.Attribute) and f.attr == 'get' and 1 <= len(node.args) <= 2 and not node.keywords \
                and not any(isinstance(a, ast.Starred) for a in node.args):
            return ast.copy_location(ast.Call(ast.Name('sx__dictget', ast.Load()), [f.value] + node.args, []), node)
        if isinstance(f, ast.Attribute) and isinstance(f.value, ast.Constant) and f.attr == 'format' and \
                isinstance(f.value.value, str) and not any(isinstance(a, ast.Starred) for a in node.args) and \
                all(k.arg is not None for k in node.keywords):
            return ast.copy_location(
                ast.Call(ast.Name('sx__format', ast.Load()), [f.value] + node.args, node.keywords), node)
        if isinstance(f, ast.Attribute) and f.attr == 'join' and len(node.args) == 1 and not node.keywords and \
                not isinstance(node.args[0], ast.Starred):
            # <sep>.join(x) for any receiver: str.join / bytes.join reject the symbolic proxies
            return ast.copy_location(
                ast.Call(ast.Name('sx__join', ast.Load()), [f.value, node.args[0]], []), node)
        if isinstance(f, ast.Attribute) and isinstance(f.value, ast.Constant) and not node.keywords:
            if f.attr == 'format' and isinstance(f.value.value, str) and \
                    not any(isinstance(a, ast.Starred) for a in node.args):
                return ast.copy_location(
                    ast.Call(ast.Name('sx__format', ast.Load()), [f.value] + node.args, []), node)
        return node

    # ---- dictionaries indexed with symbolic keys (only in the modules a check asks for): d[k], d[k] = v, d.get(k)
    def _symkeys_on(self):
        return bool(OPTIONS['symkey_modules']) and self.mod.startswith(tuple(OPTIONS['symkey_modules']))

    @staticmethod
    def _plain_index(sl):
        return not isinstance(sl, ast.Slice) and not (isinstance(sl, ast.Tuple) and any(isinstance(e, ast.Slice) for e in sl.elts))

    def visit_DictComp(self, node):
        self.generic_visit(node)
        if self._symkeys_on():
            pairs = ast.ListComp(ast.Tuple([node.key, node.value], ast.Load()), node.generators)
            return ast.copy_location(ast.Call(ast.Name('sx__mkdict', ast.Load()), [pairs], []), node)
        return node

    def visit_Dict(self, node):
        self.generic_visit(node)
        if self._symkeys_on() and node.keys and all(k is not None for k in node.keys):
            pairs = ast.List([ast.Tuple([k, v], ast.Load()) for k, v in zip(node.keys, node.values)], ast.Load())
            return ast.copy_location(ast.Call(ast.Name('sx__mkdict', ast.Load()), [pairs], []), node)
        return node

    def visit_Subscript(self, node):
        self.generic_visit(node)
        if self._symkeys_on() and isinstance(node.ctx, ast.Load) and self._plain_index(node.slice):
            return ast.copy_location(ast.Call(ast.Name('sx__getitem', ast.Load()), [node.value, node.slice], []), node)
        return node

    def visit_Assign(self, node):
        self.generic_visit(node)
        if self._symkeys_on() and any(isinstance(t, ast.Subscript) and self._plain_index(t.slice) for t in node.targets):
            tmp = '__sx_tmp_%d' % node.lineno
            out = [ast.Assign([ast.Name(tmp, ast.Store())], node.value)]
            for t in node.targets:
                if isinstance(t, ast.Subscript) and self._plain_index(t.slice):
                    out.append(ast.Expr(ast.Call(ast.Name('sx__setitem', ast.Load()), [t.value, t.slice, ast.Name(tmp, ast.Load())], [])))
                else:
                    out.append(ast.Assign([t], ast.Name(tmp, ast.Load())))
            return [ast.copy_location(x, node) for x in out]
        return node

    def visit_AugAssign(self, node):
        self.generic_visit(node)
        t = node.target
        if self._symkeys_on() and isinstance(t, ast.Subscript) and self._plain_index(t.slice) and \
                isinstance(t.value, (ast.Name, ast.Attribute)) and isinstance(t.slice, (ast.Name, ast.Constant, ast.Attribute)):
            cur = ast.Call(ast.Name('sx__getitem', ast.Load()), [t.value, t.slice], [])
            return ast.copy_location(ast.Expr(ast.Call(ast.Name('sx__setitem', ast.Load()),
                                                       [t.value, t.slice, ast.BinOp(cur, node.op, node.value)], [])), node)
        return node

    def visit_While(self, node):
        self.generic_visit(node)
        probe = ast.Expr(ast.Call(ast.Name('sx__loop', ast.Load()),
                                  [ast.Constant('%s:%d' % (self.mod, node.lineno))], []))
        node.body.insert(0, ast.copy_location(probe, node))
        return node

    def visit_For(self, node):
        self.generic_visit(node)
        probe = ast.Expr(ast.Call(ast.Name('sx__loop', ast.Load()),
                                  [ast.Constant('%s:%d' % (self.mod, node.lineno))], []))
        node.body.insert(0, ast.copy_location(probe, node))
        return node

    def _set_on(self):
        return OPTIONS['sets'] and self.mod.startswith(OPTIONS['set_modules'])

    def visit_Set(self, node):
        self.generic_visit(node)
        if self._symkeys_on():
            return ast.copy_location(
                ast.Call(ast.Name('sx__symset', ast.Load()), [ast.List(node.elts, ast.Load())], []), node)
        if self._set_on():
            return ast.copy_location(
                ast.Call(ast.Name('sx__set', ast.Load()), [ast.List(node.elts, ast.Load())], []), node)
        return node

    def visit_SetComp(self, node):
        self.generic_visit(node)
        if self._set_on():
            return ast.copy_location(
                ast.Call(ast.Name('sx__set', ast.Load()), [ast.ListComp(node.elt, node.generators)], []), node)
        return node


class XLoader(importlib.machinery.SourceFileLoader):
    def get_code(self, fullname):
        path = self.get_filename(fullname)
        data = self.get_data(path)
        tree = ast.parse(data, path)
        if path.startswith(REPO + '/androguard/'):
            tree = ast.fix_missing_locations(Rewrite(fullname).visit(tree))
            FILES_LOADED.append(path)
        return compile(tree, path, 'exec', dont_inherit=True)


def _sym(x):
    return isinstance(x, (SInt, SBytes)) or type(x).__name__ in ('SStr', 'SFloat')


def sx_mod(a, b):
    if isinstance(a, str):
        args = b if isinstance(b, tuple) else (b,)
        if any(type(x).__name__ == 'SStr' for x in args) or MOD_TO_SSTR[0] and any(_sym(x) for x in args):
            from .sstr import sx_mod_str
            return sx_mod_str(a, args)
        if any(_sym(x) for x in args):
            from .sfmt import fmt_percent
            return fmt_percent(a, args)
    return a % b


MOD_TO_SSTR = [False]   # C23: expand %x into symbolic digit characters instead of markers


def sx_join(sep, it):
    if not isinstance(sep, (str, bytes, bytearray, SBytes)) and type(sep).__name__ != 'SStr':
        return sep.join(it)             # not a string join (e.g. os.path.join(x), Thread.join(t))
    items = list(it)
    if any(isinstance(x, SBytes) for x in items):
        out = SBytes([])
        for i, x in enumerate(items):
            if i:
                out = out + sep
            out = out + x
        return out
    if any(type(x).__name__ == 'SStr' for x in items):
        from .sstr import SStr
        out = SStr([])
        for i, x in enumerate(items):
            if i:
                out = out + sep
            out = out + x
        return out
    return sep.join(items)


def sx_format(t, *a, **kw):
    if any(type(x).__name__ == 'SStr' for x in a) or any(type(x).__name__ == 'SStr' for x in kw.values()):
        from .sstr import sx_format_sstr
        return sx_format_sstr(t, *a, **kw)
    return t.format(*a, **kw)


LOOP_HOOK = [None]


def sx_loop(loop_id):
    if LOOP_HOOK[0] is not None:
        LOOP_HOOK[0](loop_id)


# ---- symbolic-key dictionary overlay: entries whose key is symbolic live in a side table per dict, compared with ==
# (which forks), and are dropped at the start of every explored path (E.PATH_START)
SIDE = {}


def _symkey(k):
    if isinstance(k, tuple):
        return any(_symkey(x) for x in k)
    if isinstance(k, SInt):
        import z3
        return not z3.is_bv_value(z3.simplify(k.e))
    return _sym(k)


def _side(d):
    ent = SIDE.get(id(d))
    if ent is None:
        ent = SIDE[id(d)] = (d, [])
    return ent[1]


def _lookup(d, k):
    """(found, value): side entries first, then the concrete keys of the dict itself"""
    for kk, v in _side(d):
        if kk == k:
            return True, v
    for kk in list(d.keys()):
        try:
            same = kk == k
        except TypeError:
            same = False
        if same:
            return True, dict.__getitem__(d, kk)
    return False, None


def sx_getitem(d, k):
    if type(d) is dict and _symkey(k):
        ok, v = _lookup(d, k)
        if not ok:
            raise KeyError(k)
        return v
    if type(d) is dict and id(d) in SIDE and SIDE[id(d)][1]:
        for kk, v in SIDE[id(d)][1]:
            if kk == k:
                return v
    return d[k]


def sx_setitem(d, k, v):
    if type(d) is dict and (_symkey(k) or (id(d) in SIDE and SIDE[id(d)][1])):
        side = _side(d)
        for i, (kk, _) in enumerate(side):
            if kk == k:
                side[i] = (kk, v)
                return
        if not _symkey(k):
            d[k] = v
            return
        for kk in list(d.keys()):
            if kk == k:
                d[kk] = v
                return
        side.append((k, v))
        return
    d[k] = v


def sx_dictget(d, k, default=None):
    if type(d) is dict and (_symkey(k) or (id(d) in SIDE and SIDE[id(d)][1])):
        ok, v = _lookup(d, k)
        return v if ok else default
    return d.get(k, default)


class SymSet:
    """set whose membership is decided with == (forks on symbolic elements) instead of hashing; insertion ordered"""

    def __init__(self, items=()):
        self.items = []
        for x in items:
            self.add(x)

    def __contains__(self, x):
        return any(y == x for y in self.items)

    def add(self, x):
        if x not in self:
            self.items.append(x)

    def discard(self, x):
        for i, y in enumerate(self.items):
            if y == x:
                del self.items[i]
                return

    def remove(self, x):
        n = len(self.items)
        self.discard(x)
        if len(self.items) == n:
            raise KeyError(x)

    def update(self, it):
        for x in it:
            self.add(x)

    def __iter__(self):
        return iter(list(self.items))

    def __len__(self):
        return len(self.items)

    def __bool__(self):
        return bool(self.items)

    def copy(self):
        return SymSet(self.items)


def sx_symset(items=()):
    return SymSet(items)


TRACKED = []


def track_sets(module):
    """module-level sets become SymSets (membership by ==) whose content is restored at the start of every explored path;
    the name `set` inside the module builds SymSets too"""
    for name, val in list(vars(module).items()):
        if type(val) is set:
            ss = SymSet(val)
            setattr(module, name, ss)
            TRACKED.append((ss, list(ss.items)))
    module.set = sx_symset
    if _reset_tracked not in E.PATH_START:
        E.PATH_START.append(_reset_tracked)


def _reset_tracked():
    for ss, init in TRACKED:
        ss.items = list(init)


def sx_mkdict(pairs):
    d = {}
    for k, v in pairs:
        sx_setitem(d, k, v)
    return d


def sx_in_dict(k, d):
    ok, _ = _lookup(d, k)
    return ok


def _reset_side():
    SIDE.clear()


SET_FACTORY = [set]


def sx_set(items=()):
    return SET_FACTORY[0](items)


_installed = [False]


def install(sets=False, symkeys=()):
    if _installed[0]:
        return
    _installed[0] = True
    OPTIONS['sets'] = sets
    OPTIONS['symkey_modules'] = tuple(symkeys)
    builtins.sx__loop = sx_loop
    builtins.sx__in = E.sx_in
    builtins.sx__mod = sx_mod
    builtins.sx__join = sx_join
    builtins.sx__format = sx_format
    builtins.sx__set = sx_set
    builtins.sx__getitem = sx_getitem
    builtins.sx__setitem = sx_setitem
    builtins.sx__dictget = sx_dictget
    builtins.sx__mkdict = sx_mkdict
    builtins.sx__symset = sx_symset
    if _reset_side not in E.PATH_START:
        E.PATH_START.append(_reset_side)
    sys.dont_write_bytecode = True
    if REPO not in sys.path:
        sys.path.insert(0, REPO)
    inner = importlib.machinery.FileFinder.path_hook(
        (importlib.machinery.ExtensionFileLoader, importlib.machinery.EXTENSION_SUFFIXES),
        (XLoader, ['.py']))

    def hook(path):
        if not (path == REPO or path.startswith(REPO + '/')):
            raise ImportError("not under the repository")
        return inner(path)
    sys.path_hooks.insert(0, hook)
    sys.path_importer_cache.clear()
    for k in [k for k in sys.modules if k == 'androguard' or k.startswith('androguard.')]:
        del sys.modules[k]
    try:
        from loguru import logger
        logger.remove()
    except Exception:
        pass


ZL = E.UF_Adler()


def shadow_dex(dex):
    """route the C boundaries of androguard.core.dex through the symbolic stubs"""
    dex.struct = E.SymStructModule
    dex.io = E.SymIOModule
    dex.zlib = ZL
    dex.unpack = E.SymStructModule.unpack
    dex.pack = E.SymStructModule.pack
    dex.isinstance = E.sx_isinstance
    dex.range = E.sx_range
    dex.int = E.sx_int
    dex.bytearray = E.sx_bytearray
    dex.bytes = E.sx_bytes
    dex.logger = E.NullLogger()
    return dex


def shadow_axml(axml):
    axml.unpack = E.SymStructModule.unpack
    axml.pack = E.SymStructModule.pack
    axml.io = E.SymIOModule
    axml.isinstance = E.sx_isinstance
    axml.range = E.sx_range
    axml.int = E.sx_int
    axml.logger = E.NullLogger()
    axml.bytes = E.sx_bytes
    axml.bytearray = E.sx_bytearray
    from .sfmt import sx_float
    axml.float = sx_float
    return axml
