"""Independent binary-XML (AXML) writer used as the generator for C26 (trusted base, written from the AOSP
ResourceTypes.h layout, shares no code with androguard).  `write(doc)` returns the bytes plus the byte offset of every
field so that a check can overlay symbolic bytes on them.

Model:
  doc  = dict(utf8=bool, namespaces=[(prefix, uri)], root=elem, resids={attr_name: resource id})
  elem = dict(ns=uri|None, name=str, attrs=[attr], kids=[elem | str], comment=str|None)
  attr = dict(ns=uri|None, name=str, type=int, data=int | None, value=str | None, raw=str|None)
         (TYPE_STRING attributes carry `value`; typed ones carry `data` and optionally the raw source text)
"""
import struct

RES_NULL, RES_STRING_POOL, RES_XML = 0x0000, 0x0001, 0x0003
XML_START_NS, XML_END_NS, XML_START_EL, XML_END_EL, XML_CDATA, XML_RESMAP = 0x0100, 0x0101, 0x0102, 0x0103, 0x0104, 0x0180
TYPE_STRING = 3
NONE = 0xFFFFFFFF


def _len8(n):
    return bytes([n]) if n < 0x80 else bytes([0x80 | (n >> 8), n & 0xff])


def _len16(n):
    return struct.pack('<H', n) if n < 0x8000 else struct.pack('<HH', 0x8000 | (n >> 16), n & 0xffff)


def encode_string(s, utf8):
    u16 = s.encode('utf-16-le', 'surrogatepass')
    if utf8:
        b = s.encode('utf-8', 'surrogatepass')
        return _len8(len(u16) // 2) + _len8(len(b)) + b + b'\0'
    return _len16(len(u16) // 2) + u16 + b'\0\0'


def collect_strings(doc):
    """pool order: attribute names that have resource ids first (their index is the index into the resource map)"""
    first, rest = [], []

    def add(lst, s):
        if s is not None and s not in first and s not in rest:
            lst.append(s)

    def walk(e):
        for a in e['attrs']:
            if a['name'] in doc.get('resids', {}):
                add(first, a['name'])
        for k in e['kids']:
            if isinstance(k, dict):
                walk(k)
    walk(doc['root'])
    for p, u in doc.get('namespaces', []):
        add(rest, p)
        add(rest, u)

    def walk2(e):
        add(rest, e['ns'])
        add(rest, e['name'])
        add(rest, e.get('comment'))
        for a in e['attrs']:
            add(rest, a['ns'])
            add(rest, a['name'])
            add(rest, a.get('value'))
            add(rest, a.get('raw'))
        for k in e['kids']:
            if isinstance(k, dict):
                walk2(k)
            else:
                add(rest, k)
    walk2(doc['root'])
    for s in doc.get('extra_strings', []):
        add(rest, s)
    return first + rest


class Layout:
    def __init__(self):
        self.fields = {}       # name -> (offset, size)
        self.chunks = []       # dict(kind, at, ...)


def write(doc):
    utf8 = doc.get('utf8', True)
    pool = collect_strings(doc)
    idx = {s: i for i, s in enumerate(pool)}
    L = Layout()
    L.pool = pool

    def ref(s):
        return NONE if s is None else idx[s]
    # ---- string pool
    datas = [encode_string(s, utf8) for s in pool]
    offs = []
    o = 0
    for d in datas:
        offs.append(o)
        o += len(d)
    blob = b''.join(datas)
    blob += b'\0' * (-len(blob) % 4)
    strings_start = 28 + 4 * len(pool)
    sp = struct.pack('<HHIIIIII', RES_STRING_POOL, 28, strings_start + len(blob), len(pool), 0, (1 << 8) if utf8 else 0,
                     strings_start, 0)
    sp += b''.join(struct.pack('<I', x) for x in offs) + blob
    out = bytearray(b'\0' * 8) + sp
    L.pool_at = 8
    L.string_offsets_at = 8 + 28
    L.string_data_at = 8 + strings_start
    L.string_off = offs
    # ---- resource map
    names_with_id = [s for s in pool if s in doc.get('resids', {})]
    if names_with_id:
        # the map covers the leading pool entries
        ids = [doc['resids'][s] for s in pool[:len(names_with_id)]]
        L.resmap_at = len(out) + 8
        out += struct.pack('<HHI', XML_RESMAP, 8, 8 + 4 * len(ids)) + b''.join(struct.pack('<I', i) for i in ids)
    line = [1]

    def node(kind, ext, comment=None, tag=None):
        at = len(out)
        out.extend(struct.pack('<HHIII', kind, 16, 16 + len(ext), line[0], ref(comment)) + ext)
        L.chunks.append(dict(kind=kind, at=at, tag=tag))
        line[0] += 1
        return at
    for p, u in doc.get('namespaces', []):
        node(XML_START_NS, struct.pack('<II', idx[p], idx[u]), tag=('ns', p))
    counter = [0]

    def emit(e):
        n = counter[0]
        counter[0] += 1
        ext = struct.pack('<IIHHHHHH', ref(e['ns']), idx[e['name']], 0x14, 0x14, len(e['attrs']), 0, 0, 0)
        for a in e['attrs']:
            if a['type'] == TYPE_STRING:
                raw = data = idx[a['value']]
            else:
                raw, data = ref(a.get('raw')), a['data']
            ext += struct.pack('<IIIHBBI', ref(a['ns']), idx[a['name']], raw, 8, 0, a['type'], data)
        at = node(XML_START_EL, ext, e.get('comment'), tag=('start', n))
        L.fields['e%d.line' % n] = (at + 8, 4)
        L.fields['e%d.comment' % n] = (at + 12, 4)
        L.fields['e%d.ns' % n] = (at + 16, 4)
        L.fields['e%d.name' % n] = (at + 20, 4)
        L.fields['e%d.attr_start' % n] = (at + 24, 2)
        L.fields['e%d.id_index' % n] = (at + 30, 2)
        L.fields['e%d.class_index' % n] = (at + 32, 2)
        L.fields['e%d.style_index' % n] = (at + 34, 2)
        for j in range(len(e['attrs'])):
            b = at + 36 + 20 * j
            for k, nm in enumerate(('ns', 'name', 'raw')):
                L.fields['e%d.a%d.%s' % (n, j, nm)] = (b + 4 * k, 4)
            L.fields['e%d.a%d.vsize' % (n, j)] = (b + 12, 2)
            L.fields['e%d.a%d.res0' % (n, j)] = (b + 14, 1)
            L.fields['e%d.a%d.type' % (n, j)] = (b + 15, 1)
            L.fields['e%d.a%d.data' % (n, j)] = (b + 16, 4)
        t = 0
        for k in e['kids']:
            if isinstance(k, dict):
                emit(k)
            else:
                at = node(XML_CDATA, struct.pack('<IHBBI', idx[k], 8, 0, 0, 0), tag=('text', n, t))
                L.fields['e%d.t%d.line' % (n, t)] = (at + 8, 4)
                L.fields['e%d.t%d.comment' % (n, t)] = (at + 12, 4)
                L.fields['e%d.t%d.idx' % (n, t)] = (at + 16, 4)
                L.fields['e%d.t%d.typed' % (n, t)] = (at + 20, 8)
                t += 1
        at = node(XML_END_EL, struct.pack('<II', ref(e['ns']), idx[e['name']]), tag=('end', n))
        L.fields['e%d.end_line' % n] = (at + 8, 4)
        L.fields['e%d.end_comment' % n] = (at + 12, 4)
        L.fields['e%d.end_ns' % n] = (at + 16, 4)
        L.fields['e%d.end_name' % n] = (at + 20, 4)
    emit(doc['root'])
    for p, u in reversed(doc.get('namespaces', [])):
        node(XML_END_NS, struct.pack('<II', idx[p], idx[u]), tag=('endns', p))
    out[0:8] = struct.pack('<HHI', RES_XML, 8, len(out))
    return bytes(out), L


# ---------------------------------------------------------------- reference tree of a model
def ref_tree(doc, value_of=None):
    """plain data tree the printed XML must show: (tag '{uri}name', {attr '{uri}name': value}, text, [children])
    value_of(attr) renders typed values (supplied by the check); string attributes render as their string."""
    def q(ns, name):
        return ('{%s}%s' % (ns, name)) if ns else name

    def conv(e):
        attrs = {}
        for a in e['attrs']:
            attrs[q(a['ns'], a['name'])] = a['value'] if a['type'] == TYPE_STRING else value_of(a)
        kids = []
        text = None
        for k in e['kids']:
            if isinstance(k, dict):
                kids.append(conv(k))
            elif not kids:
                text = (text or '') + k
            else:
                kids[-1]['tail'] = (kids[-1]['tail'] or '') + k
        return dict(tag=q(e['ns'], e['name']), attrs=attrs, text=text, kids=kids, tail=None, comment=e.get('comment'))
    return conv(doc['root'])
