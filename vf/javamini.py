"""javamini - parser + symbolic evaluator for the Java subset DAD emits (scratch prototype).

Values: ('i', BV32) | ('j', BV64) | ('z', Bool).  Control via the engine (fork on conditions).
"""
import re
import z3

TOK = re.compile(r'\s*(?:(\d+[lL]?|0x[0-9a-fA-F]+[lL]?)|([A-Za-z_$][\w$.]*)|(>>>=|<<=|>>=|>>>|\+\+|--|&&|\|\||==|!=|<=|>=|<<|>>|\+=|-=|\*=|/=|%=|&=|\|=|\^=|[-+*/%&|^~!<>=(){};,?:\[\]]))')


def tokenize(src):
    pos = 0
    out = []
    src = re.sub(r'//[^\n]*', '', src)
    while True:
        m = TOK.match(src, pos)
        if not m:
            if src[pos:].strip():
                raise SyntaxError("cannot tokenize: %r" % src[pos:pos + 30])
            return out
        num, ident, op = m.groups()
        if num is not None:
            out.append(('num', num))
        elif ident is not None:
            out.append(('id', ident))
        else:
            out.append(('op', op))
        pos = m.end()


TYPES = {'int', 'long', 'boolean', 'byte', 'short', 'char', 'void'}
MODS = {'public', 'private', 'protected', 'static', 'final', 'synchronized', 'native', 'abstract', 'strictfp', 'varargs', 'bridge', 'synthetic'}


class Parser:
    def __init__(self, toks):
        self.t = toks
        self.i = 0

    def peek(self, k=0):
        return self.t[self.i + k] if self.i + k < len(self.t) else ('eof', '')

    def next(self):
        tok = self.peek()
        self.i += 1
        return tok

    def accept(self, kind, val=None):
        k, v = self.peek()
        if k == kind and (val is None or v == val):
            self.i += 1
            return True
        return False

    def expect(self, kind, val=None):
        k, v = self.next()
        if k != kind or (val is not None and v != val):
            raise SyntaxError("expected %s %s got %s %s at %d" % (kind, val, k, v, self.i))
        return v

    # method: modifiers type name ( params ) block
    def method(self):
        while self.peek()[1] in MODS:
            self.next()
        ret = self.expect('id')
        name = self.expect('id')
        self.expect('op', '(')
        params = []
        while not self.accept('op', ')'):
            ty = self.expect('id')
            nm = self.expect('id')
            params.append((ty, nm))
            self.accept('op', ',')
        body = self.block()
        return dict(ret=ret, name=name, params=params, body=body)

    def block(self):
        self.expect('op', '{')
        stmts = []
        while not self.accept('op', '}'):
            stmts.append(self.stmt())
        return ('block', stmts)

    def stmt(self):
        k, v = self.peek()
        if k == 'op' and v == '{':
            return self.block()
        if k == 'id' and v == 'if':
            self.next(); self.expect('op', '(')
            c = self.expr(); self.expect('op', ')')
            th = self.stmt()
            el = None
            if self.accept('id', 'else'):
                el = self.stmt()
            return ('if', c, th, el)
        if k == 'id' and v == 'while':
            self.next(); self.expect('op', '(')
            c = self.expr(); self.expect('op', ')')
            return ('while', c, self.stmt())
        if k == 'id' and v == 'do':
            self.next()
            body = self.stmt()
            self.expect('id', 'while'); self.expect('op', '(')
            c = self.expr(); self.expect('op', ')'); self.expect('op', ';')
            return ('dowhile', body, c)
        if k == 'id' and v == 'return':
            self.next()
            if self.accept('op', ';'):
                return ('return', None)
            e = self.expr(); self.expect('op', ';')
            return ('return', e)
        if k == 'id' and v in ('break', 'continue'):
            self.next(); self.expect('op', ';')
            return (v,)
        if k == 'id' and v == 'switch':
            self.next(); self.expect('op', '(')
            e = self.expr(); self.expect('op', ')'); self.expect('op', '{')
            cases = []
            while not self.accept('op', '}'):
                labels = []
                while True:
                    if self.accept('id', 'case'):
                        neg = self.accept('op', '-')
                        n = self.expect('num')
                        labels.append(-int(n, 0) if neg else int(n, 0)); self.expect('op', ':')
                    elif self.accept('id', 'default'):
                        labels.append('default'); self.expect('op', ':')
                    else:
                        break
                body = []
                while self.peek() not in (('id', 'case'), ('id', 'default'), ('op', '}')):
                    body.append(self.stmt())
                cases.append((labels, body))
            return ('switch', e, cases)
        if k == 'id' and v in TYPES and self.peek(1)[0] == 'id':
            ty = self.next()[1]; nm = self.expect('id')
            init = None
            if self.accept('op', '='):
                init = self.expr()
            self.expect('op', ';')
            return ('decl', ty, nm, init)
        # expression statement (assignment, ++)
        e = self.expr()
        self.expect('op', ';')
        return ('expr', e)

    PREC = [['||'], ['&&'], ['|'], ['^'], ['&'], ['==', '!='], ['<', '>', '<=', '>='], ['<<', '>>', '>>>'], ['+', '-'], ['*', '/', '%']]

    def expr(self):
        lhs = self.binary(0)
        k, v = self.peek()
        if k == 'op' and v in ('=', '+=', '-=', '*=', '/=', '%=', '&=', '|=', '^=', '<<=', '>>=', '>>>='):
            self.next()
            rhs = self.expr()
            return ('assign', v, lhs, rhs)
        return lhs

    def binary(self, level):
        if level == len(self.PREC):
            return self.unary()
        lhs = self.binary(level + 1)
        while self.peek()[0] == 'op' and self.peek()[1] in self.PREC[level]:
            op = self.next()[1]
            rhs = self.binary(level + 1)
            lhs = ('bin', op, lhs, rhs)
        return lhs

    def unary(self):
        k, v = self.peek()
        if k == 'op' and v in ('-', '!', '~', '+'):
            self.next()
            return ('un', v, self.unary())
        if k == 'op' and v == '(' and self.peek(1) == ('id', self.peek(1)[1]) and self.peek(1)[1] in TYPES and self.peek(2) == ('op', ')'):
            self.next(); ty = self.next()[1]; self.next()
            return ('cast', ty, self.unary())
        return self.postfix()

    def postfix(self):
        e = self.primary()
        while self.peek() in (('op', '++'), ('op', '--')):
            op = self.next()[1]
            e = ('assign', '+=' if op == '++' else '-=', e, ('num', 1, 'i'))
        return e

    def primary(self):
        k, v = self.next()
        if k == 'num':
            if v[-1] in 'lL':
                return ('num', int(v[:-1], 0), 'j')
            return ('num', int(v, 0), 'i')
        if k == 'id':
            if v == 'true': return ('bool', True)
            if v == 'false': return ('bool', False)
            return ('var', v)
        if k == 'op' and v == '(':
            e = self.expr()
            self.expect('op', ')')
            return e
        raise SyntaxError("unexpected %s %s" % (k, v))


def parse_method(src):
    return Parser(tokenize(src)).method()


# ---------------- symbolic evaluation
class JavaThrow(Exception):
    pass


class _Return(Exception):
    def __init__(self, v): self.v = v


class _Break(Exception):
    pass


class _Continue(Exception):
    pass


class Unwind(Exception):
    pass


def I(x): return ('i', x)
def J(x): return ('j', x)
def Z(x): return ('z', x)


def to_type(v, ty):
    k, e = v
    if ty in ('int', 'i'):
        if k == 'i': return v
        if k == 'j': return I(z3.Extract(31, 0, e))
        if k == 'z': return I(z3.If(e, z3.BitVecVal(1, 32), z3.BitVecVal(0, 32)))
    if ty in ('long', 'j'):
        if k == 'j': return v
        if k == 'i': return J(z3.SignExt(32, e))
    if ty == 'byte':
        v = to_type(v, 'int'); return I(z3.SignExt(24, z3.Extract(7, 0, v[1])))
    if ty == 'short':
        v = to_type(v, 'int'); return I(z3.SignExt(16, z3.Extract(15, 0, v[1])))
    if ty == 'char':
        v = to_type(v, 'int'); return I(z3.ZeroExt(16, z3.Extract(15, 0, v[1])))
    if ty in ('boolean', 'z'):
        if k == 'z': return v
        if k == 'i': return Z(e != 0)
    raise TypeError((v, ty))


class Eval:
    def __init__(self, engine, unwind=8):
        self.eng = engine
        self.unwind = unwind

    def cond(self, v):
        v = to_type(v, 'boolean')
        return self.eng.branch(v[1])

    def run(self, meth, args):
        env = {}
        for (ty, nm), a in zip(meth['params'], args):
            env[nm] = a
        self.types = {nm: ty for ty, nm in meth['params']}
        try:
            self.stmt(meth['body'], env)
        except _Return as r:
            if r.v is None:
                return None
            return to_type(r.v, meth['ret'])
        return None

    def stmt(self, s, env):
        k = s[0]
        if k == 'block':
            for x in s[1]:
                self.stmt(x, env)
        elif k == 'decl':
            _, ty, nm, init = s
            self.types[nm] = ty          # declarations are hoisted to method scope (DAD scoping)
            if init is not None:
                env[nm] = to_type(self.expr(init, env), ty)
        elif k == 'expr':
            self.expr(s[1], env)
        elif k == 'if':
            if self.cond(self.expr(s[1], env)):
                self.stmt(s[2], env)
            elif s[3] is not None:
                self.stmt(s[3], env)
        elif k == 'while':
            n = 0
            while self.cond(self.expr(s[1], env)):
                n += 1
                if n > self.unwind: raise Unwind()
                try:
                    self.stmt(s[2], env)
                except _Break:
                    break
                except _Continue:
                    continue
        elif k == 'dowhile':
            n = 0
            while True:
                n += 1
                if n > self.unwind: raise Unwind()
                try:
                    self.stmt(s[1], env)
                except _Break:
                    break
                except _Continue:
                    pass
                if not self.cond(self.expr(s[2], env)):
                    break
        elif k == 'return':
            raise _Return(None if s[1] is None else self.expr(s[1], env))
        elif k == 'break':
            raise _Break()
        elif k == 'continue':
            raise _Continue()
        elif k == 'switch':
            v = to_type(self.expr(s[1], env), 'int')[1]
            started = False
            try:
                for labels, body in s[2]:
                    if not started:
                        hit = False
                        for lab in labels:
                            if lab == 'default':
                                continue
                            if self.eng.branch(v == lab):
                                hit = True
                                break
                        if hit:
                            started = True
                    if started:
                        for x in body:
                            self.stmt(x, env)
                if not started:
                    for labels, body in s[2]:
                        if 'default' in labels:
                            started = True
                        if started:
                            for x in body:
                                self.stmt(x, env)
            except _Break:
                pass
        else:
            raise NotImplementedError(k)

    def binop(self, op, a, b):
        if op in ('&&', '||'):
            raise AssertionError
        ka, kb = a[0], b[0]
        if op in ('<<', '>>', '>>>'):
            a = to_type(a, 'int') if ka != 'j' else a
            w = 64 if a[0] == 'j' else 32
            sh = to_type(b, 'long' if w == 64 else 'int') if b[0] != 'z' else b
            sh = (to_type(b, 'int')[1] if b[0] != 'j' else z3.Extract(31, 0, b[1]))
            sh = sh & (w - 1)
            sh = z3.ZeroExt(32, sh) if w == 64 else sh
            e = a[1] << sh if op == '<<' else (a[1] >> sh if op == '>>' else z3.LShR(a[1], sh))
            return (a[0], e)
        if ka == 'z' and kb == 'z':
            x, y = a[1], b[1]
            return Z({'==': x == y, '!=': x != y, '&': z3.And(x, y), '|': z3.Or(x, y), '^': z3.Xor(x, y)}[op])
        ty = 'long' if 'j' in (ka, kb) else 'int'
        a = to_type(a, ty); b = to_type(b, ty)
        x, y = a[1], b[1]
        mk = J if ty == 'long' else I
        if op in ('/', '%'):
            if self.eng.branch(y == 0):
                raise JavaThrow('ArithmeticException')
            # Java: MIN / -1 == MIN ; z3 bvsdiv wraps the same way
            return mk(x / y if op == '/' else z3.SRem(x, y))
        if op in ('+', '-', '*', '&', '|', '^'):
            return mk({'+': x + y, '-': x - y, '*': x * y, '&': x & y, '|': x | y, '^': x ^ y}[op])
        return Z({'==': x == y, '!=': x != y, '<': x < y, '>': x > y, '<=': x <= y, '>=': x >= y}[op])

    def expr(self, e, env):
        k = e[0]
        if k == 'num':
            return I(z3.BitVecVal(e[1], 32)) if e[2] == 'i' else J(z3.BitVecVal(e[1], 64))
        if k == 'bool':
            return Z(z3.BoolVal(e[1]))
        if k == 'var':
            return env[e[1]]
        if k == 'cast':
            return to_type(self.expr(e[2], env), e[1])
        if k == 'un':
            v = self.expr(e[2], env)
            if e[1] == '!':
                return Z(z3.Not(to_type(v, 'boolean')[1]))
            if e[1] == '-':
                return (v[0], -v[1])
            if e[1] == '~':
                return (v[0], ~v[1])
            return v
        if k == 'bin':
            op = e[1]
            if op == '&&':
                if not self.cond(self.expr(e[2], env)):
                    return Z(z3.BoolVal(False))
                return to_type(self.expr(e[3], env), 'boolean')
            if op == '||':
                if self.cond(self.expr(e[2], env)):
                    return Z(z3.BoolVal(True))
                return to_type(self.expr(e[3], env), 'boolean')
            return self.binop(op, self.expr(e[2], env), self.expr(e[3], env))
        if k == 'assign':
            _, op, lhs, rhs = e
            assert lhs[0] == 'var'
            v = self.expr(rhs, env)
            if op != '=':
                v = self.binop(op[:-1], env[lhs[1]], v)
            ty = self.types.get(lhs[1])
            env[lhs[1]] = to_type(v, ty) if ty else v
            return env[lhs[1]]
        raise NotImplementedError(k)
