"""./check <id> [--tier quick|thorough] [--replay file]"""
import os
import sys
import json
import argparse
import importlib
import traceback

ROOT = os.path.dirname(os.path.dirname(os.path.abspath(__file__)))


def main():
    ap = argparse.ArgumentParser()
    ap.add_argument('pid')
    ap.add_argument('--tier', default=os.environ.get('VERIF_TIER', 'quick'), choices=['quick', 'thorough'])
    ap.add_argument('--replay')
    a = ap.parse_args()
    pid = a.pid.upper()
    seed = int(os.environ.get('VERIF_SEED', '0') or 0)
    from vf import core
    if a.replay:
        body = json.load(open(a.replay))
        ctx = core.Ctx(pid, a.tier, seed)
        res = ctx.replay_batch([dict(witness=body['witness'])])[0]
        print(json.dumps(res))
        if res.get('reproduced'):
            print("VIOLATION property=%s replay=%s" % (pid, os.path.abspath(a.replay)))
            return core.EXIT_VIOLATION
        return core.EXIT_OK
    sys.setrecursionlimit(5000)
    mod = importlib.import_module('vf.checks.%s' % pid.lower())
    ctx = core.Ctx(pid, a.tier, seed, level=getattr(mod, 'LEVEL', 'model_checking'))
    try:
        mod.run(ctx)
        rc = ctx.finish()
    except core.HarnessError as e:
        print("HARNESS-ERROR property=%s: %s" % (pid, e), file=sys.stderr)
        return core.EXIT_HARNESS
    except core.Inconclusive as e:
        traceback.print_exc()
        print("INCONCLUSIVE property=%s: %s" % (pid, e), file=sys.stderr)
        return core.EXIT_HARNESS
    except Exception:
        traceback.print_exc()
        print("HARNESS-ERROR property=%s: unexpected exception" % pid, file=sys.stderr)
        return core.EXIT_HARNESS
    st = ctx.stats.as_dict()
    print("%s %s: paths=%d forks=%d queries=%d (unsat %d, sat %d) obligations=%d/%d solver=%.1fs wall=%.1fs -> %s" % (
        pid, a.tier, st['paths'], st['forks'], st['queries'], st['unsat'], st['sat'], st['discharged'],
        st['obligations'], st['solver_s'], __import__('time').time() - ctx.t0, 'OK' if rc == 0 else 'VIOLATION'))
    return rc


if __name__ == '__main__':
    sys.exit(main())
