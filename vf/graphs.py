"""C18 / C19: the decompiler's dom_lt and compute_rpo on real Graph objects whose normal and catch edges are free boolean
inputs, materialised row by row when the algorithm first asks for a node's successors.

Honest note (DESIGN C18): these algorithms look at every edge of the reachable part, so each path fixes the whole reachable
graph - symbolic execution degenerates to an exhaustive enumeration of all digraphs within the bound (free inputs fork
without solver queries); the declarative oracle below is evaluated per path."""
import itertools
import sys
from .engine import *
from . import hook


class Nd:
    def __init__(self, i):
        self.i = i
        self.num = 0
        self.po = 0
        self.in_catch = False
        self.catch_type = None

    def set_catch_type(self, t):
        self.catch_type = t

    def __repr__(self):
        return 'n%d' % self.i


def graphmod():
    hook.install()
    from androguard.decompiler import graph
    graph.logger = NullLogger()
    return graph


def build(graph, N, mode, first, maxdeg):
    """real Graph with lazily chosen edges.  mode 'normal': normal edges only; 'mixed': every ordered pair is one of
    none / normal / catch.  `first` fixes the choices of the entry row (job sharding)."""
    nodes = [Nd(i) for i in range(N)]
    g = graph.Graph()
    g.nodes = nodes
    g.entry = nodes[0]
    rows = {}
    eng = engine()

    def row(node):
        if node not in rows and mode.startswith('chain'):
            # spine 0 -> 1 -> ... -> N-1 (a depth-first chain) plus at most one extra edge per node, to any node;
            # 'chain2' also puts the extra edge in front of the spine edge (successor order fixes the DFS numbering)
            nxt = [nodes[node.i + 1]] if node.i + 1 < N else []
            c = first[0] if (node.i == 0 and first is not None) else eng.choose(N + 1)
            extra = [nodes[c - 1]] if c and nodes[c - 1] not in nxt else []
            front = bool(extra) and mode == 'chain2' and bool(eng.choose(2))
            rows[node] = ((extra + nxt) if front else (nxt + extra), [])
        if node not in rows:
            nor, cat = [], []
            for j in range(N):
                if mode == 'nse' and (j == 0 or j == node.i):
                    continue                 # family without self-loops and without edges into the entry
                if node.i == 0 and first is not None:
                    c = first[j]
                else:
                    c = eng.choose(2 if mode in ('normal', 'nse') else 3)
                if c == 1 and len(nor) + len(cat) < maxdeg:
                    nor.append(nodes[j])
                elif c == 2 and len(nor) + len(cat) < maxdeg:
                    cat.append(nodes[j])
            rows[node] = (nor, cat)
        return rows[node]

    class Lazy(dict):
        """one of the two edge dictionaries; a question about the dictionary as a whole (truth value, length, keys)
        materialises every row, like the real dictionary which has a key for every node with such an edge"""

        def __init__(self, k):
            self.k = k

        def get(self, node, default=None):
            return list(row(node)[self.k])

        def __getitem__(self, node):
            return list(row(node)[self.k])

        def _keys(self):
            return [x for x in nodes if row(x)[self.k]]

        def __len__(self):
            return len(self._keys())

        def __bool__(self):
            return bool(self._keys())

        def __iter__(self):
            return iter(self._keys())

        def keys(self):
            return self._keys()

        def __contains__(self, node):
            return bool(row(node)[self.k])

        def items(self):
            return [(x, list(row(x)[self.k])) for x in self._keys()]

        def values(self):
            return [list(row(x)[self.k]) for x in self._keys()]
    g.edges = Lazy(0)
    g.catch_edges = Lazy(1)
    return g, nodes, rows


def complete(g, nodes, rows):
    """materialise every row reachable from the entry (an algorithm that stops looking early must not shrink the graph
    it is judged on)"""
    todo = [nodes[0]]
    seen = set()
    while todo:
        x = todo.pop()
        if x in seen:
            continue
        seen.add(x)
        todo += g.edges.get(x) + g.catch_edges.get(x)
    for x in list(rows):
        if x not in seen:
            del rows[x]          # a row the algorithm asked for although nothing reaches it


def succ(rows, v):
    return rows[v][0] + rows[v][1]


def ref_idom(nodes, rows):
    """standard definition: d dominates v iff every path entry->v contains d; idom = the closest strict dominator"""
    reach = list(rows)
    preds = {v: [u for u in reach if v in succ(rows, u)] for v in reach}
    dom = {v: set(reach) for v in reach}
    dom[nodes[0]] = {nodes[0]}
    ch = True
    while ch:
        ch = False
        for v in reach:
            if v is nodes[0]:
                continue
            ps = [dom[p] for p in preds[v]]
            nd = (set.intersection(*ps) | {v}) if ps else {v}
            if nd != dom[v]:
                dom[v] = nd
                ch = True
    idom = {}
    for v in reach:
        if v is nodes[0]:
            idom[v] = None
            continue
        c = dom[v] - {v}
        idom[v] = [d for d in c if all(o in dom[d] for o in c)][0]
    return idom


def reaches(rows, a, b):
    seen, todo = {a}, [a]
    while todo:
        x = todo.pop()
        for y in succ(rows, x):
            if y is b:
                return True
            if y not in seen:
                seen.add(y)
                todo.append(y)
    return False


def rpo_problems(nodes, rows, N):
    bad = []
    if nodes[0].num != 1:
        bad.append('entry is numbered %d' % nodes[0].num)
    if sorted(x.num for x in nodes) != list(range(1, N + 1)):
        bad.append('numbers %r are not a permutation of 1..%d' % ([x.num for x in nodes], N))
    for u in rows:
        for v in succ(rows, u):
            if u.num >= v.num and not (v is u or reaches(rows, v, u)):
                bad.append('edge %r->%r is not on a cycle but is numbered %d -> %d' % (u, v, u.num, v.num))
    return bad


def job(jc, spec):
    which, N, mode, first, maxdeg = spec
    graph = graphmod()
    eng = jc.new_engine(max_paths=10 ** 7)
    label = '%s N=%d %s' % (which, N, mode)

    def go():
        g, nodes, rows = build(graph, N, mode, first, maxdeg)
        if which == 'C18':
            dom = g.immediate_dominators()
            complete(g, nodes, rows)
            ref = ref_idom(nodes, rows)
            bad = ['idom(%r) = %r, definition gives %r' % (v, dom.get(v), ref[v]) for v in rows if dom.get(v) is not ref[v]]
            if dom.get(nodes[0]) is not None:
                bad.append('entry has a dominator')
        else:
            g.compute_rpo()
            complete(g, nodes, rows)
            if len(rows) != N:
                return None, rows            # not rooted: outside the precondition of C19
            bad = rpo_problems(nodes, rows, N)
            if [x for x in g.rpo] != sorted(nodes, key=lambda x: x.num):
                bad.append('Graph.rpo is not sorted by the numbering')
        return bad, rows
    n = 0
    for pc, (kind, r) in eng.explore(go):
        n += 1
        jc.reached('explored')
        if kind == 'exc':
            jc.concrete_violation(dict(prop=which, N=N, edges=None, note=repr(r)), label=label, what='algorithm raised %r' % (r,))
            continue
        bad, rows = r
        eng.st.obligations += 1
        if bad:
            edges = [[u.i, v.i, 0] for u in rows for v in rows[u][0]] + [[u.i, v.i, 1] for u in rows for v in rows[u][1]]
            jc.concrete_violation(dict(prop=which, N=N, edges=edges), label=label, what=bad[0])
        else:
            eng.st.discharged += 1
    if first in (None, tuple([0] * N)) or first == tuple([1] * N) or first == (0,):
        jc.sample(dict(case=label, first_row=first, graphs=n))


class Blk:
    """stand-in for a DEXBasicBlock as graph.bfs / construct read it: childs and exception_analysis.exceptions"""

    def __init__(self, i):
        self.i = i
        self.childs = []
        self.exception_analysis = None

    def __repr__(self):
        return 'b%d' % self.i


class ExcA:
    def __init__(self):
        self.exceptions = []


def bfs_graph(graph, N, kinds):
    """what construct() does with the block order of bfs(): one add_node per yielded block, edges as the blocks list
    them; kinds[(i, j)]: 0 none, 1 child, 2 handler, 3 handler listed twice (multi-catch)"""
    blocks = [Blk(i) for i in range(N)]
    for (i, j), c in kinds.items():
        if c == 1:
            blocks[i].childs.append((0, 0, blocks[j]))
        elif c >= 2:
            if blocks[i].exception_analysis is None:
                blocks[i].exception_analysis = ExcA()
            for _ in range(c - 1):
                blocks[i].exception_analysis.exceptions.append(('Ljava/lang/Exception;', 0, blocks[j]))
    g = graph.Graph()
    node_of = {}
    order = []
    for b in graph.bfs(blocks[0]):
        order.append(b.i)
        if b not in node_of:
            node_of[b] = Nd(b.i)
        g.add_node(node_of[b])
    g.entry = node_of[blocks[0]]
    for b, n in node_of.items():
        for _, _, c in b.childs:
            if c in node_of:
                g.add_edge(n, node_of[c])
        if b.exception_analysis:
            for _, _, c in b.exception_analysis.exceptions:
                if c in node_of:
                    g.add_catch_edge(n, node_of[c])
    g.compute_rpo()
    bad = []
    if len(order) != len(set(order)):
        bad.append('bfs yields a block twice: %r' % order)
    reach, todo = set(), [0]
    while todo:
        x = todo.pop()
        if x in reach:
            continue
        reach.add(x)
        todo += [j for (i, j), c in kinds.items() if i == x and c]
    if set(order) != reach:
        bad.append('bfs yields %r, reachable blocks are %r' % (order, sorted(reach)))
    nodes = [node_of[b] for b in blocks if b in node_of]
    nodes.sort(key=lambda n: n.i)
    rows = {n: ([node_of[blocks[j]] for (i, j), c in kinds.items() if i == n.i and c == 1 and blocks[j] in node_of],
                [node_of[blocks[j]] for (i, j), c in kinds.items() if i == n.i and c >= 2 and blocks[j] in node_of]) for n in nodes}
    bad += rpo_problems(nodes, rows, len(nodes))
    if len(g.rpo) != len(nodes):
        bad.append('Graph.rpo has %d entries for %d nodes' % (len(g.rpo), len(nodes)))
    return bad


def job_bfs(jc, spec):
    """C19 on graphs as construct() builds them: block order from graph.bfs over stand-in basic blocks"""
    N, first = spec
    graph = graphmod()
    eng = jc.new_engine(max_paths=10 ** 7)
    label = 'C19 bfs N=%d' % N
    pairs = [(i, j) for i in range(N) for j in range(N) if i != j]

    def go():
        kinds = {}
        for k, pr in enumerate(pairs):
            kinds[pr] = first[k] if k < len(first) else eng.choose(4)
        return bfs_graph(graph, N, kinds), [[i, j, c] for (i, j), c in kinds.items() if c]
    n = 0
    for pc, (kind_, r) in eng.explore(go):
        n += 1
        jc.reached('explored')
        eng.st.obligations += 1
        if kind_ == 'exc':
            jc.concrete_violation(dict(prop='C19', N=N, edges=None, note=repr(r)), label=label, what='raised %r' % (r,))
            continue
        bad, edges = r
        if bad:
            jc.concrete_violation(dict(prop='C19', N=N, bfs=edges), label=label, what=bad[0])
        else:
            eng.st.discharged += 1
    if first == (0, 0):
        jc.sample(dict(case=label, graphs=n))


def deep_graph(graph, N, extra):
    """spine 0 -> 1 -> ... -> N-1 with extra edges {source: target}"""
    nodes = [Nd(i) for i in range(N)]
    g = graph.Graph()
    for x in nodes:
        g.add_node(x)
    g.entry = nodes[0]
    for i in range(N - 1):
        g.add_edge(nodes[i], nodes[i + 1])
    for a, b in extra.items():
        g.add_edge(nodes[a], nodes[b])
    g.compute_rpo()
    bad = []
    if nodes[0].num != 1:
        bad.append('entry is numbered %d' % nodes[0].num)
    if sorted(x.num for x in nodes) != list(range(1, N + 1)):
        bad.append('numbers are not a permutation of 1..%d (%d nodes keep the number 0)' % (N, sum(1 for x in nodes if x.num == 0)))
    # the spine reaches everything behind a node, so an edge a -> b is on a cycle iff b <= a
    for i in range(N - 1):
        if nodes[i].num >= nodes[i + 1].num:
            bad.append('spine edge %d -> %d is numbered %d -> %d' % (i, i + 1, nodes[i].num, nodes[i + 1].num))
            break
    for a, b in extra.items():
        if b > a and nodes[a].num >= nodes[b].num:
            bad.append('forward edge %d -> %d is numbered %d -> %d' % (a, b, nodes[a].num, nodes[b].num))
    return bad


DEEP_N = 1500


def job_deep(jc, spec):
    """C19 on deep graphs: a spine of DEEP_N nodes, one optional extra edge from each of three nodes"""
    graph = graphmod()
    eng = jc.new_engine(max_paths=10 ** 6)
    N = DEEP_N
    srcs = [0, N - 2, N - 1]
    tgts = [0, N // 2, N - 1]

    def go():
        extra = {}
        for a in srcs:
            c = eng.choose(len(tgts) + 1)
            if c and tgts[c - 1] != a + 1:
                extra[a] = tgts[c - 1]
        return deep_graph(graph, N, extra), extra
    for pc, (kind_, r) in eng.explore(go):
        jc.reached('explored')
        eng.st.obligations += 1
        if kind_ == 'exc':
            jc.concrete_violation(dict(prop='C19', N=N, edges=None, note=repr(r)), label='C19 deep', what='raised %r' % (r,))
            continue
        bad, extra = r
        if bad:
            jc.concrete_violation(dict(prop='C19', N=N, deep={str(k): v for k, v in extra.items()}), label='C19 deep', what=bad[0])
        else:
            eng.st.discharged += 1


def job_history(jc, spec):
    """C19 through the public mutators: a graph built with add_node / add_edge / add_catch_edge is numbered, then changed
    by one more mutator call (or the entry is moved), and numbered again; the second numbering must be valid for the
    graph as it is then"""
    which, N, first = spec
    graph = graphmod()
    eng = jc.new_engine(max_paths=10 ** 7)
    label = '%s history N=%d' % (which, N)

    def ask(g):
        return g.immediate_dominators() if which == 'C18' else g.compute_rpo()
    pairs = [(i, j) for i in range(N) for j in range(N) if i != j]

    def go():
        nodes = [Nd(i) for i in range(N)]
        g = graph.Graph()
        for x in nodes:
            g.add_node(x)
        g.entry = nodes[0]
        kind = {}
        for k, (i, j) in enumerate(pairs):
            c = first[k] if k < len(first) else eng.choose(3)
            kind[(i, j)] = c
            if c == 1:
                g.add_edge(nodes[i], nodes[j])
            elif c == 2:
                g.add_catch_edge(nodes[i], nodes[j])
        ask(g)
        free = [p_ for p_ in pairs if kind[p_] == 0]
        op = eng.choose(2 * len(free) + N)
        if op < 2 * len(free):
            i, j = free[op // 2]
            kind[(i, j)] = 1 + op % 2
            (g.add_edge if op % 2 == 0 else g.add_catch_edge)(nodes[i], nodes[j])
            what = ['add_edge', 'add_catch_edge'][op % 2], i, j
        else:
            e = op - 2 * len(free)
            g.entry = nodes[e]
            what = ('entry', e, e)
        dom = ask(g)
        rows = {}
        todo = [g.entry]
        while todo:
            x = todo.pop()
            if x in rows:
                continue
            rows[x] = ([nodes[j] for (i, j), c in kind.items() if i == x.i and c == 1], [nodes[j] for (i, j), c in kind.items() if i == x.i and c == 2])
            todo += succ(rows, x)
        order = [g.entry] + [x for x in nodes if x is not g.entry]
        if which == 'C18':
            ref = ref_idom(order, rows)
            bad = ['idom(%r) = %r, definition gives %r' % (v, dom.get(v), ref[v]) for v in rows if dom.get(v) is not ref[v]]
        elif len(rows) != N:
            return None
        else:
            bad = rpo_problems(order, rows, N)
        return bad, [[i, j, c] for (i, j), c in kind.items() if c and not (i, j, c - 1) == (what[1], what[2], ['add_edge', 'add_catch_edge'].index(what[0]) if what[0] != 'entry' else -1)], list(what)
    n = 0
    for pc, (kind_, r) in eng.explore(go):
        if kind_ == 'exc':
            jc.concrete_violation(dict(prop=which, N=N, edges=None, note=repr(r)), label=label, what='raised %r' % (r,))
            continue
        if r is None:
            continue
        n += 1
        jc.reached('explored')
        eng.st.obligations += 1
        bad, edges, what = r
        if bad:
            jc.concrete_violation(dict(prop=which, N=N, history=dict(edges=edges, then=what)), label=label, what=bad[0])
        else:
            eng.st.discharged += 1
    if first == (0, 0):
        jc.sample(dict(case=label, histories=n))


def run(ctx, which):
    graphmod()
    from . import graphs as me
    ctx.functions_encoded = ['androguard.decompiler.graph.dom_lt', 'Graph.immediate_dominators', 'Graph.all_sucs'] if which == 'C18' \
        else ['androguard.decompiler.graph.Graph.compute_rpo', 'Graph.post_order', 'Graph.all_sucs']
    jobs = []

    def shard(N, mode, maxdeg):
        k = 2 if mode == 'normal' else 3
        for first in itertools.product(range(k), repeat=N):
            jobs.append((which, N, mode, first, maxdeg))
    shard(3, 'mixed', 99)
    shard(4, 'normal', 99)
    if which == 'C18':
        for first in itertools.product(range(2), repeat=5):
            jobs.append((which, 5, 'nse', first, 99))
        for c in range(7):
            jobs.append((which, 6, 'chain', (c,), 99))
    if ctx.thorough:
        shard(5, 'normal', 2)
        shard(4, 'mixed', 2)
        if which == 'C18':
            shard(5, 'normal', 99)
            for c in range(7):
                jobs.append((which, 6, 'chain2', (c,), 99))
            for c in range(8):
                jobs.append((which, 7, 'chain', (c,), 99))
    ctx.bounds = dict(histories='every 3-node graph without self-loops built through add_node / add_edge / add_catch_edge, '
                      'asked (dominators / numbering), changed by one more add_edge / add_catch_edge / entry move, asked again',
                      graphs=['all digraphs on 3 nodes where every ordered pair is none / normal edge / catch edge (3^9)',
                              'all digraphs on 4 nodes with normal edges (2^16)'] +
                             (['all digraphs on 5 nodes without self-loops and without edges into the entry (2^16)', '6 nodes: spine 0->1->..->5 plus at most one extra edge per node (7^6)'] if which == 'C18' else []) +
                             (['5 nodes, out-degree <= 2', '4 nodes mixed edge kinds, out-degree <= 2'] if ctx.thorough else []),
                      note='self-loops and irreducible graphs included; unreachable nodes allowed for C18, rooted graphs only for C19')
    ctx.stubs = ['Graph built directly from mock nodes; its edge dictionaries are lazy views over free boolean inputs']
    ctx.assumptions = ['C19 oracle: an edge numbered backwards must lie on a cycle (its target reaches its source); '
                       'entry = 1; numbers are a permutation of 1..n',
                       'C18 oracle: iterative dominator-set definition on the reachable subgraph']
    ctx.outside_claim = ['graphs with more nodes (the property quantifies over graphs of hundreds of nodes: enumeration cannot '
                         'reach them and there is no smaller symbolic state to abstract)',
                         'the solver contributes no queries here: free inputs fork by enumeration']
    ctx.level_note = 'enumeration through the symbolic executor'
    mod = sys.modules['vf.checks.%s' % which.lower()]
    ctx.diff_unhooked(mod, [dict(prop=which, N=4, edges=[[0, 1, 0], [1, 2, 0], [2, 1, 0], [0, 3, 1], [3, 2, 0]]),
                            dict(prop=which, N=3, edges=[[0, 0, 0], [0, 2, 1], [2, 1, 0]])])
    ctx.pmap(job, jobs)
    ctx.pmap(job_history, [(which, 3, f) for f in itertools.product(range(3), repeat=2)])
    if which == 'C19':
        ctx.functions_encoded += ['androguard.decompiler.graph.bfs (block order that construct() feeds to add_node)']
        ctx.bounds['bfs'] = ('every 3-block graph without self-loops whose ordered pairs are none / child / handler / handler listed '
                             'twice (4^6), built the way construct() does from the order of graph.bfs, then numbered')
        ctx.bounds['deep'] = 'spine of %d nodes (longer than any default recursion limit) with 0..3 extra edges (64 graphs)' % DEEP_N
        ctx.pmap(job_bfs, [(3, f) for f in itertools.product(range(4), repeat=2)])
        ctx.pmap(job_deep, [None])


def _concrete_graph(w):
    from androguard.decompiler import graph
    N = w['N']
    nodes = [Nd(i) for i in range(N)]
    g = graph.Graph()
    g.nodes = nodes
    g.entry = nodes[0]
    for u, v, k in w['edges']:
        if k == 0:
            g.edges[nodes[u]].append(nodes[v])
        else:
            g.catch_edges[nodes[u]].append(nodes[v])
    rows = {}
    todo = [nodes[0]]
    while todo:
        x = todo.pop()
        if x in rows:
            continue
        rows[x] = (list(g.edges.get(x, [])), list(g.catch_edges.get(x, [])))
        todo += succ(rows, x)
    return g, nodes, rows


def concrete(c):
    g, nodes, rows = _concrete_graph(c)
    if c['prop'] == 'C18':
        dom = g.immediate_dominators()
        return {repr(k): repr(v) for k, v in dom.items()}
    g.compute_rpo()
    return [x.num for x in nodes]


def replay_history(w):
    from androguard.decompiler import graph
    N = w['N']
    h = w['history']
    nodes = [Nd(i) for i in range(N)]
    g = graph.Graph()
    for x in nodes:
        g.add_node(x)
    g.entry = nodes[0]
    kind = {}
    for i, j, c in h['edges']:
        kind[(i, j)] = c
        (g.add_edge if c == 1 else g.add_catch_edge)(nodes[i], nodes[j])
    c18 = w.get('prop') == 'C18'
    if c18:
        g.immediate_dominators()
    else:
        g.compute_rpo()
    first = [x.num for x in nodes]
    op, i, j = h['then']
    if op == 'entry':
        g.entry = nodes[i]
    else:
        kind[(i, j)] = 1 if op == 'add_edge' else 2
        getattr(g, op)(nodes[i], nodes[j])
    dom = g.immediate_dominators() if c18 else g.compute_rpo()
    rows = {}
    todo = [g.entry]
    while todo:
        x = todo.pop()
        if x in rows:
            continue
        rows[x] = ([nodes[b] for (a, b), c in kind.items() if a == x.i and c == 1], [nodes[b] for (a, b), c in kind.items() if a == x.i and c == 2])
        todo += succ(rows, x)
    order = [g.entry] + [x for x in nodes if x is not g.entry]
    if c18:
        ref = ref_idom(order, rows)
        bad = ['idom(%r) = %r, definition gives %r' % (v, dom.get(v), ref[v]) for v in rows if dom.get(v) is not ref[v]]
        return bool(bad), 'edges %r (1 normal, 2 catch), dominators asked; then %r and immediate_dominators again: %s' % (
            h['edges'], h['then'], '; '.join(bad[:3]))
    bad = rpo_problems(order, rows, N) if len(rows) == N else []
    return bool(bad), 'edges %r (1 normal, 2 catch) numbered %r; then %r and compute_rpo again gives %r: %s' % (
        h['edges'], first, h['then'], [x.num for x in nodes], '; '.join(bad[:3]))


def replay(w):
    if w.get('history'):
        return replay_history(w)
    if w.get('bfs') is not None or w.get('deep') is not None:
        from androguard.decompiler import graph
        try:
            if w.get('bfs') is not None:
                bad = bfs_graph(graph, w['N'], {(i, j): c for i, j, c in w['bfs']})
                return bool(bad), 'blocks %r (1 child, 2 handler, 3 handler listed twice): %s' % (w['bfs'], '; '.join(bad[:3]))
            bad = deep_graph(graph, w['N'], {int(k): v for k, v in w['deep'].items()})
            return bool(bad), 'spine of %d nodes plus edges %r: %s' % (w['N'], w['deep'], '; '.join(bad[:3]))
        except Exception as e:
            return True, 'raised %r' % (e,)
    if w.get('edges') is None:
        return False, 'no graph recorded: %s' % w.get('note')
    g, nodes, rows = _concrete_graph(w)
    try:
        if w['prop'] == 'C18':
            dom = g.immediate_dominators()
            ref = ref_idom(nodes, rows)
            bad = ['idom(%r) = %r, definition gives %r' % (v, dom.get(v), ref[v]) for v in rows if dom.get(v) is not ref[v]]
        else:
            g.compute_rpo()
            bad = rpo_problems(nodes, rows, w['N']) if len(rows) == w['N'] else []
    except Exception as e:
        return True, 'graph %r: raised %r' % (w['edges'], e)
    return bool(bad), 'graph %r (u, v, 1=catch): %s' % (w['edges'], '; '.join(bad[:3]))
