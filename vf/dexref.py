"""independent, term-aware reference reader for the DEX object model (C05 / C07).

It walks the same `items` (ints and SInt bytes) the real parser is given.  Values that only flow through (flags, sizes)
stay z3 terms; values that select a table entry (indices, offsets) are read under the path's model and recorded as
assumptions `term == value`, which the check proves to be implied by the path condition."""
import z3
from .engine import SInt, bv, W, mval


class Ref:
    def __init__(self, items, model):
        self.it = items
        self.m = model
        self.assume = []

    # ---- primitive reads
    def u(self, off, n):
        """little-endian unsigned of n bytes as int or z3 term"""
        parts = self.it[off:off + n]
        if all(isinstance(x, int) for x in parts):
            return int.from_bytes(bytes(parts), 'little')
        e = z3.BitVecVal(0, W)
        for k, x in enumerate(parts):
            e = e | (bv(x) << (8 * k))
        return z3.simplify(e)

    def pin(self, t):
        """structural value: evaluate under the model, remember that the path must imply it"""
        if isinstance(t, int):
            return t
        v = self.m.eval(t, model_completion=True).as_long()
        self.assume.append(t == v)
        return v

    def idx(self, off, n):
        return self.pin(self.u(off, n))

    def uleb(self, off):
        """(value term-or-int, next offset); multi-byte only for concrete bytes"""
        b = self.it[off]
        if isinstance(b, SInt):
            # symbolic single-byte uleb (the harness constrains it < 0x80)
            self.assume.append(b.e < 0x80)
            return z3.simplify(b.e), off + 1
        v, sh = 0, 0
        while True:
            b = self.it[off]
            assert isinstance(b, int), 'multi-byte uleb with symbolic continuation'
            off += 1
            v |= (b & 0x7f) << sh
            sh += 7
            if not b & 0x80:
                return v, off

    def mutf8(self, off):
        _, off = self.uleb(off)
        out = []
        while True:
            b = self.it[off]
            assert isinstance(b, int)
            if b == 0:
                break
            if b < 0x80:
                out.append(b)
                off += 1
            elif b & 0xe0 == 0xc0:
                out.append((b & 0x1f) << 6 | self.it[off + 1] & 0x3f)
                off += 2
            else:
                out.append((b & 0x0f) << 12 | (self.it[off + 1] & 0x3f) << 6 | self.it[off + 2] & 0x3f)
                off += 3
        s = ''
        i = 0
        while i < len(out):
            u = out[i]
            if 0xd800 <= u < 0xdc00 and i + 1 < len(out) and 0xdc00 <= out[i + 1] < 0xe000:
                s += chr(0x10000 + ((u - 0xd800) << 10) + (out[i + 1] - 0xdc00))
                i += 2
            else:
                s += chr(u)
                i += 1
        return s

    # ---- tables
    def parse(self):
        h = lambda o: self.u(o, 4)
        self.ns, self.s_off = h(56), h(60)
        self.nt, self.t_off = h(64), h(68)
        self.np, self.p_off = h(72), h(76)
        self.nf, self.f_off = h(80), h(84)
        self.nm, self.m_off = h(88), h(92)
        self.nc, self.c_off = h(96), h(100)
        self.strings = [self.mutf8(self.idx(self.s_off + 4 * i, 4)) for i in range(self.ns)]
        return self

    INVALID_S = None

    def string(self, i):
        return self.strings[i] if 0 <= i < self.ns else None

    def type(self, i):
        if not 0 <= i < self.nt:
            return None
        return self.string(self.idx(self.t_off + 4 * i, 4))

    def type_list(self, off):
        if off == 0:
            return []
        n = self.idx(off, 4)
        return [self.type(self.idx(off + 4 + 2 * k, 2)) for k in range(n)]

    def proto(self, i):
        o = self.p_off + 12 * i
        ret = self.type(self.idx(o + 4, 4))
        params = self.type_list(self.idx(o + 8, 4))
        return '(%s)%s' % (' '.join(params), ret)

    def field(self, i):
        o = self.f_off + 8 * i
        return (self.type(self.idx(o, 2)), self.string(self.idx(o + 4, 4)), self.type(self.idx(o + 2, 2)))

    def method(self, i):
        o = self.m_off + 8 * i
        return (self.type(self.idx(o, 2)), self.string(self.idx(o + 4, 4)), self.proto(self.idx(o + 2, 2)))

    def code(self, off):
        if off == 0:
            return None
        n = self.pin(self.u(off + 12, 4))
        return dict(registers=self.u(off, 2), ins=self.u(off + 2, 2), outs=self.u(off + 4, 2),
                    insns=self.it[off + 16: off + 16 + 2 * n])

    def class_data(self, off):
        out = dict(sfields=[], ifields=[], dmethods=[], vmethods=[])
        if off == 0:
            return out
        cnt = []
        for _ in range(4):
            v, off = self.uleb(off)
            cnt.append(self.pin(v) if not isinstance(v, int) else v)
        for key, n in (('sfields', cnt[0]), ('ifields', cnt[1])):
            prev = 0
            for _ in range(n):
                d, off = self.uleb(off)
                fl, off = self.uleb(off)
                prev = prev + (self.pin(d) if not isinstance(d, int) else d)
                out[key].append(self.field(prev) + (fl,))
        for key, n in (('dmethods', cnt[2]), ('vmethods', cnt[3])):
            prev = 0
            for _ in range(n):
                d, off = self.uleb(off)
                fl, off = self.uleb(off)
                co, off = self.uleb(off)
                prev = prev + (self.pin(d) if not isinstance(d, int) else d)
                out[key].append(self.method(prev) + (fl, self.code(self.pin(co) if not isinstance(co, int) else co)))
        return out

    def classes(self):
        out = []
        for i in range(self.nc):
            o = self.c_off + 32 * i
            sup = self.idx(o + 8, 4)
            c = dict(name=self.type(self.idx(o, 4)), access=self.u(o + 4, 4),
                     superclass=None if sup == 0xffffffff else self.type(sup),
                     interfaces=self.type_list(self.idx(o + 12, 4)),
                     source=self.u(o + 16, 4))
            c.update(self.class_data(self.idx(o + 24, 4)))
            out.append(c)
        return out


def observe(d):
    """the same model as reported by the real parser (values may be SInt)"""
    out = []
    for c in d.get_classes():
        cd = dict(name=c.get_name(), access=c.get_access_flags(), superclass=c.get_superclassname(),
                  interfaces=list(c.get_interfaces()), source=c.get_source_file_idx(),
                  sfields=[], ifields=[], dmethods=[], vmethods=[])
        cdi = c.class_data_item if getattr(c, 'class_data_item', None) is not None else None
        if cdi is not None:
            for key, lst in (('sfields', cdi.get_static_fields()), ('ifields', cdi.get_instance_fields())):
                for f in lst:
                    cd[key].append((f.get_class_name(), f.get_name(), f.get_descriptor(), f.get_access_flags()))
            for key, lst in (('dmethods', cdi.get_direct_methods()), ('vmethods', cdi.get_virtual_methods())):
                for m in lst:
                    code = m.get_code()
                    cd[key].append((m.get_class_name(), m.get_name(), m.get_descriptor(), m.get_access_flags(),
                                    None if code is None else dict(registers=code.get_registers_size(), ins=code.get_ins_size(),
                                                                   outs=code.get_outs_size(), insns=list(code.get_bc().get_insn()))))
        out.append(cd)
    return out


def term_eq(a, b):
    """z3 condition: observed leaf a equals reference leaf b (ints, SInt, z3 terms, strings, None)"""
    if isinstance(a, SInt) or isinstance(b, SInt) or z3.is_expr(a) or z3.is_expr(b):
        if a is None or b is None or isinstance(a, str) or isinstance(b, str):
            return z3.BoolVal(False)
        return (bv(a) if not z3.is_expr(a) else a) == (bv(b) if not z3.is_expr(b) else b)
    return z3.BoolVal(a == b)


def compare(obs, ref):
    """(z3 condition, first structural difference or None) for observed vs reference class lists"""
    conds = []
    if len(obs) != len(ref):
        return z3.BoolVal(False), 'class count %d vs %d' % (len(obs), len(ref))
    for o, r in zip(obs, ref):
        conds.append(term_eq(o['source'], r['source']))
        for k in ('name', 'superclass', 'interfaces'):
            if k == 'superclass' and r[k] is None and (o[k] is None or str(o[k]).startswith('AG:')):
                continue            # NO_INDEX: no superclass; None or androguard's invalid-type marker are both accepted
            if o[k] != r[k]:
                return z3.BoolVal(False), 'class %s: %s %r vs %r' % (r['name'], k, o[k], r[k])
        conds.append(term_eq(o['access'], r['access']))
        for k in ('sfields', 'ifields'):
            if len(o[k]) != len(r[k]):
                return z3.BoolVal(False), 'class %s: %d %s vs %d' % (r['name'], len(o[k]), k, len(r[k]))
            for a, b in zip(o[k], r[k]):
                if tuple(a[:3]) != tuple(b[:3]):
                    return z3.BoolVal(False), 'class %s: field %r vs %r' % (r['name'], a[:3], b[:3])
                conds.append(term_eq(a[3], b[3]))
        for k in ('dmethods', 'vmethods'):
            if len(o[k]) != len(r[k]):
                return z3.BoolVal(False), 'class %s: %d %s vs %d' % (r['name'], len(o[k]), k, len(r[k]))
            for a, b in zip(o[k], r[k]):
                if tuple(a[:3]) != tuple(b[:3]):
                    return z3.BoolVal(False), 'class %s: method %r vs %r' % (r['name'], a[:3], b[:3])
                conds.append(term_eq(a[3], b[3]))
                if (a[4] is None) != (b[4] is None):
                    return z3.BoolVal(False), 'method %r: code presence %r vs %r' % (a[:3], a[4] is not None, b[4] is not None)
                if a[4] is not None:
                    for kk in ('registers', 'ins', 'outs'):
                        conds.append(term_eq(a[4][kk], b[4][kk]))
                    if len(a[4]['insns']) != len(b[4]['insns']):
                        return z3.BoolVal(False), 'method %r: %d code bytes vs %d' % (a[:3], len(a[4]['insns']), len(b[4]['insns']))
                    conds += [term_eq(x, y) for x, y in zip(a[4]['insns'], b[4]['insns'])]
    return z3.And(conds + [z3.BoolVal(True)]), None
