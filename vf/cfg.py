"""shared harness for C10 / C11 / C12 / C40: a skeleton DEX whose method `f` is a template of concrete opcodes with
symbolic branch offsets, switch targets, payload references and try/handler addresses; the real DEX() +
MethodAnalysis run per path; obligations are stated against a declarative reference over the same symbolic fields."""
import os
import sys
import random
import struct
import zlib
import z3
from .engine import *
from . import common, hook, dexasm
from .dexasm import Cls, Mth, Code

# ------------------------------------------------------------------ template description
#  instruction kinds: name -> (units, is_branch_kind)
KINDS = {
    'c1': 1, 'c2': 2, 'c3': 3, 'nop': 1, 'goto': 1, 'goto16': 2, 'goto32': 3, 'ift': 2, 'ifz': 2,
    'pswitch': 3, 'sswitch': 3, 'fill': 3, 'retv': 1, 'ret': 1, 'throw': 1,
}
ENDERS = ('retv', 'ret', 'throw', 'goto', 'goto16', 'goto32')
BRANCHY = ('goto', 'goto16', 'goto32', 'ift', 'ifz', 'pswitch', 'sswitch', 'retv', 'ret', 'throw')


class Template:
    def __init__(self, body, tries=(), sym=(), nt=2, seed=0, misaligned=False, share=False, hmap=None, catch_all=None):
        self.body = list(body)          # list of kinds
        self.tries = list(tries)        # list of dict(start=idx of ins, end=idx (exclusive, may be len(body)), handler=idx)
        self.sym = set(sym)             # names of symbolic quantities: 'b<i>' branch of ins i, 't<i>_<k>' switch target,
                                        # 'r<i>' payload reference of ins i, 'ts<j>' 'tc<j>' 'th<j>' try start/count/handler
        self.nt = nt                    # targets per switch payload
        self.seed = seed
        self.misaligned = misaligned
        # hmap[j] = index of the handler list used by try j (several tries may share a list, not necessarily neighbours);
        # catch_all[h] = instruction index of the catch-all handler of list h, or None
        if hmap is None:
            hmap = [0] * len(self.tries) if (share and len(self.tries) > 1) else list(range(len(self.tries)))
        self.hmap = list(hmap)
        self.nlists = (max(self.hmap) + 1) if self.hmap else 0
        self.catch_all = list(catch_all) if catch_all is not None else [None] * self.nlists
        self.share = len(set(self.hmap)) < len(self.hmap)

    def describe(self):
        return dict(body=self.body, tries=self.tries, symbolic=sorted(self.sym), switch_targets=self.nt,
                    handler_list_of_try=self.hmap, catch_all=self.catch_all)


def gen_template(rnd, flavour):
    """seeded template; flavour in {'branches', 'try', 'switch', 'handler', 'payloadref'}"""
    n = rnd.randrange(5, 9)
    plain = ['c1', 'c2', 'c3', 'c1', 'nop']
    body = [rnd.choice(plain) for _ in range(n)]
    body[-1] = rnd.choice(['retv', 'ret', 'throw'])
    sym = set()
    tries = []

    def place(kind, lo=0, hi=None):
        hi = n - 1 if hi is None else hi
        cand = [i for i in range(lo, hi) if body[i] in plain]
        if not cand:
            return None
        i = rnd.choice(cand)
        body[i] = kind
        return i
    if flavour == 'branches':
        for kind in rnd.sample(['goto', 'goto16', 'goto32', 'ift', 'ifz', 'ifz', 'ift'], rnd.randrange(2, 4)):
            i = place(kind)
            if i is not None:
                sym.add('b%d' % i)
        if rnd.random() < 0.5:
            i = place(rnd.choice(['retv', 'throw']))
    elif flavour == 'try':
        i = place(rnd.choice(['ift', 'ifz', 'goto16']))
        if i is not None:
            sym.add('b%d' % i)
        s = rnd.randrange(0, n - 2)
        e = rnd.randrange(s + 1, n)
        tries.append(dict(start=s, end=e, handler=rnd.randrange(0, n)))
        sym |= {'ts0', 'tc0'}
        share = False
        if rnd.random() < 0.5 and e + 1 < n:
            s2 = rnd.randrange(e, n - 1)
            tries.append(dict(start=s2, end=rnd.randrange(s2 + 1, n + 1), handler=rnd.randrange(0, n)))
            share = rnd.random() < 0.5
    elif flavour == 'switch':
        i = place(rnd.choice(['pswitch', 'sswitch']), 0, n - 2)
        if i is not None:
            sym |= {'t%d_0' % i, 't%d_1' % i}
        j = place(rnd.choice(['ifz', 'goto']))
        if j is not None:
            sym.add('b%d' % j)
    elif flavour == 'handler':
        s = rnd.randrange(0, n - 1)
        e = rnd.randrange(s + 1, n + 1)
        tries.append(dict(start=s, end=e, handler=rnd.randrange(0, n)))
        sym |= {'th0', 'ts0'}
        i = place(rnd.choice(['ift', 'ifz']))
        if i is not None:
            sym.add('b%d' % i)
    elif flavour == 'payloadref':
        i = place(rnd.choice(['pswitch', 'sswitch', 'fill']), 0, n - 2)
        if i is not None:
            sym.add('r%d' % i)
        j = place(rnd.choice(['pswitch', 'fill']), 0, n - 2)
        k = place('ifz')
        if k is not None:
            sym.add('b%d' % k)
    return Template(body, tries, sym, nt=2, seed=rnd.randrange(1 << 30), misaligned=(flavour == 'payloadref' and rnd.random() < 0.5),
                    share=(flavour == 'try' and share))


class Built:
    """assembled skeleton + symbolic overlay + the declarative reference data"""


def build(t):
    rnd = random.Random(t.seed)
    body = t.body
    n = len(body)
    # offsets in code units
    uoff = []
    u = 0
    for k in body:
        uoff.append(u)
        u += KINDS[k]
    body_units = u
    # payloads after the body, 2-unit aligned (a nop spacer is an instruction of its own)
    payload_of = {}
    extra = []          # (kind, units) pseudo instructions after the body
    pu = body_units
    for i, k in enumerate(body):
        if k in ('pswitch', 'sswitch', 'fill'):
            if pu % 2 and not t.misaligned:
                extra.append(('nop', pu, 1))
                pu += 1
            size = {'pswitch': 4 + 2 * t.nt, 'sswitch': 2 + 4 * t.nt, 'fill': 4 + 2}[k]
            payload_of[i] = pu
            extra.append((k + '_payload', pu, size, i))
            pu += size
    total_units = pu
    starts_body = [2 * x for x in uoff]                      # byte offsets of body instructions
    starts_all = starts_body + [2 * e[1] for e in extra]
    # concrete default values for every field
    val = {}
    for i, k in enumerate(body):
        if k in ('goto', 'goto16', 'goto32', 'ift', 'ifz'):
            tgt = rnd.choice([x for x in range(n) if not (k == 'goto' and x == i)])
            val['b%d' % i] = uoff[tgt] - uoff[i]
        if k in ('pswitch', 'sswitch'):
            for j in range(t.nt):
                val['t%d_%d' % (i, j)] = uoff[rnd.randrange(n)] - uoff[i]
        if k in ('pswitch', 'sswitch', 'fill'):
            val['r%d' % i] = payload_of[i] - uoff[i]
    for j, tr in enumerate(t.tries):
        val['ts%d' % j] = uoff[tr['start']]
        endu = body_units if tr['end'] >= n else uoff[tr['end']]
        val['tc%d' % j] = endu - uoff[tr['start']]
    for j, tr in enumerate(t.tries):
        val.setdefault('th%d' % t.hmap[j], uoff[tr['handler']])
    for h, ca in enumerate(t.catch_all):
        if ca is not None:
            val['ca%d' % h] = uoff[ca]
    # units
    units = []
    pos = {}            # field -> (unit index, kind of encoding)
    for i, k in enumerate(body):
        a = uoff[i]
        if k == 'c1': units += [0x1012]
        elif k == 'c2': units += [0x0013, 5]
        elif k == 'c3': units += [0x0014, 1, 0]
        elif k == 'nop': units += [0x0000]
        elif k == 'retv': units += [0x000e]
        elif k == 'ret': units += [0x000f]
        elif k == 'throw': units += [0x0027]
        elif k == 'goto':
            units += [0x28 | ((val['b%d' % i] & 0xff) << 8)]
            pos['b%d' % i] = (a, 's8hi')
        elif k == 'goto16':
            units += [0x0029, val['b%d' % i] & 0xffff]
            pos['b%d' % i] = (a + 1, 's16')
        elif k == 'goto32':
            v = val['b%d' % i] & 0xffffffff
            units += [0x002a, v & 0xffff, v >> 16]
            pos['b%d' % i] = (a + 1, 's32')
        elif k == 'ift':
            units += [0x1032, val['b%d' % i] & 0xffff]
            pos['b%d' % i] = (a + 1, 's16')
        elif k == 'ifz':
            units += [0x0038, val['b%d' % i] & 0xffff]
            pos['b%d' % i] = (a + 1, 's16')
        elif k in ('pswitch', 'sswitch', 'fill'):
            v = val['r%d' % i] & 0xffffffff
            units += [{'pswitch': 0x002b, 'sswitch': 0x002c, 'fill': 0x0026}[k], v & 0xffff, v >> 16]
            pos['r%d' % i] = (a + 1, 's32')
    for e in extra:
        if e[0] == 'nop':
            units += [0]
            continue
        kind, at, size, i = e
        assert len(units) == at
        if kind == 'pswitch_payload':
            units += [0x0100, t.nt, 7, 0]
            for j in range(t.nt):
                v = val['t%d_%d' % (i, j)] & 0xffffffff
                pos['t%d_%d' % (i, j)] = (len(units), 's32')
                units += [v & 0xffff, v >> 16]
        elif kind == 'sswitch_payload':
            units += [0x0200, t.nt]
            for j in range(t.nt):
                units += [10 * j + 1, 0]
            for j in range(t.nt):
                v = val['t%d_%d' % (i, j)] & 0xffffffff
                pos['t%d_%d' % (i, j)] = (len(units), 's32')
                units += [v & 0xffff, v >> 16]
        else:
            units += [0x0300, 2, 2, 0, 0x1111, 0x2222]
    assert len(units) == total_units
    tries = [(val['ts%d' % j], val['tc%d' % j], t.hmap[j]) for j in range(len(t.tries))]
    handlers = [([('Ljava/lang/Exception;', val['th%d' % h])], val.get('ca%d' % h)) for h in range(t.nlists)]
    hl_off = []          # byte offset of each list inside the handler section (after the count byte)
    o = 1
    for h in range(t.nlists):
        hl_off.append(o)
        o += 4 if t.catch_all[h] is not None else 3
    A = Cls('LA;', dmethods=[Mth('f', 'V', (), 0x9, Code(4, 0, 0, lambda P: units, tries=tries, handlers=handlers))])
    blob, P, L = dexasm.assemble([A])
    items = list(blob)
    ins0 = L.insns_off[('LA;', 'f')]
    S = {}              # symbolic quantity -> SInt (value in code units / as encoded)
    pre = []
    for name in sorted(t.sym):
        if name[0] in 'br' or (name[0] == 't' and '_' in name):
            at, enc = pos[name]
            o = ins0 + 2 * at
            if enc == 's8hi':
                b = fresh_byte(name)
                items[o + 1] = b
                S[name] = SInt(z3.SignExt(W - 8, z3.Extract(7, 0, b.e)), -128, 127)
            elif enc == 's16':
                bs = [fresh_byte('%s_%d' % (name, q)) for q in range(2)]
                items[o:o + 2] = bs
                S[name] = SInt(z3.SignExt(W - 16, z3.Concat(z3.Extract(7, 0, bs[1].e), z3.Extract(7, 0, bs[0].e))),
                               -(1 << 15), (1 << 15) - 1)
            else:
                bs = [fresh_byte('%s_%d' % (name, q)) for q in range(4)]
                items[o:o + 4] = bs
                S[name] = SInt(z3.SignExt(W - 32, z3.Concat(*[z3.Extract(7, 0, bs[q].e) for q in (3, 2, 1, 0)])),
                               -(1 << 31), (1 << 31) - 1)
        else:
            j = int(name[2:])
            if name.startswith('ts') and False:
                pass
            if name.startswith('ts'):
                o = L.tries_off[('LA;', 'f')] + 8 * j
                bs = [fresh_byte('%s_%d' % (name, q)) for q in range(4)]
                items[o:o + 4] = bs
                S[name] = SInt(z3.ZeroExt(W - 32, z3.Concat(*[z3.Extract(7, 0, bs[q].e) for q in (3, 2, 1, 0)])), 0, (1 << 32) - 1)
            elif name.startswith('tc'):
                o = L.tries_off[('LA;', 'f')] + 8 * j + 4
                bs = [fresh_byte('%s_%d' % (name, q)) for q in range(2)]
                items[o:o + 2] = bs
                S[name] = SInt(z3.ZeroExt(W - 16, z3.Concat(z3.Extract(7, 0, bs[1].e), z3.Extract(7, 0, bs[0].e))), 0, 0xffff)
            else:
                # handler list h: [sleb size][type uleb 1 byte][addr uleb 1 byte][catch-all addr uleb 1 byte]
                o = L.handlers_off[('LA;', 'f')] + hl_off[j] + (2 if name.startswith('th') else 3)
                b = fresh_byte(name)
                items[o] = b
                pre.append(b.e < 0x80)
                S[name] = b
    B = Built()
    B.t, B.items, B.S, B.val, B.blob = t, items, S, val, blob
    B.uoff, B.body_units, B.extra, B.payload_of = uoff, body_units, extra, payload_of
    B.starts_body, B.starts_all, B.total_units = starts_body, starts_all, total_units

    def q(name):
        """z3 term (code units) of a quantity, symbolic or concrete"""
        return S[name].e if name in S else z3.BitVecVal(val[name], W)
    B.q = q
    # validity preconditions: every target is a body instruction start; tries are well formed and ordered
    body_u = [z3.BitVecVal(x, W) for x in uoff]

    def is_body_start(e):
        return z3.Or([e == x for x in body_u])
    for i, k in enumerate(body):
        if k in ('goto', 'goto16', 'goto32', 'ift', 'ifz') and 'b%d' % i in S:
            pre.append(is_body_start(q('b%d' % i) + uoff[i]))
            if k == 'goto':
                pre.append(q('b%d' % i) != 0)
        if k in ('pswitch', 'sswitch'):
            for j in range(t.nt):
                if 't%d_%d' % (i, j) in S:
                    pre.append(is_body_start(q('t%d_%d' % (i, j)) + uoff[i]))
        if 'r%d' % i in S:
            # any code unit of the method, instruction start or not (a reference into the middle of an instruction
            # must link to nothing)
            pre.append(z3.And(q('r%d' % i) + uoff[i] >= 0, q('r%d' % i) + uoff[i] < total_units))
    prev_end = None
    for j in range(len(t.tries)):
        ts, tc = q('ts%d' % j), q('tc%d' % j)
        pre.append(is_body_start(ts))
        pre.append(tc >= 1)
        pre.append(z3.Or([ts + tc == x for x in body_u] + [ts + tc == body_units]))
        if prev_end is not None:
            pre.append(ts >= prev_end)
        prev_end = ts + tc
    for h in range(t.nlists):
        pre.append(is_body_start(q('th%d' % h)))
        if t.catch_all[h] is not None:
            pre.append(is_body_start(q('ca%d' % h)))
    B.pre = pre
    B.layout = L
    return B


# ------------------------------------------------------------------ reference (declarative, byte offsets)
def reference(B, shift=0):
    """shift: byte offset by which the whole body was moved (edit history: two nops prepended)"""
    t, q, uoff = B.t, B.q, B.uoff
    n = len(t.body)
    R = Built()
    targets = []         # z3 byte offsets that must begin a block
    succ = {}            # body ins index -> list of z3 byte offsets (expected successor targets), None = falls through
    for i, k in enumerate(t.body):
        cur = 2 * uoff[i] + shift
        nxt = 2 * (uoff[i] + KINDS[k]) + shift
        if k in ('goto', 'goto16', 'goto32'):
            tg = 2 * q('b%d' % i) + cur
            targets.append(tg)
            succ[i] = [tg]
        elif k in ('ift', 'ifz'):
            tg = 2 * q('b%d' % i) + cur
            targets.append(tg)
            succ[i] = [z3.BitVecVal(nxt, W), tg]
        elif k in ('pswitch', 'sswitch'):
            tgs = [2 * q('t%d_%d' % (i, j)) + cur for j in range(t.nt)]
            targets += tgs
            succ[i] = [z3.BitVecVal(nxt, W)] + tgs
        elif k in ('retv', 'ret', 'throw'):
            succ[i] = []
    tries = []
    for j in range(len(t.tries)):
        h = t.hmap[j]
        ts, tc = 2 * q('ts%d' % j), 2 * q('tc%d' % j)
        hl = [('Ljava/lang/Exception;', 2 * q('th%d' % h))]
        if t.catch_all[h] is not None:
            hl.append(('Ljava/lang/Throwable;', 2 * q('ca%d' % h)))
        targets += [ts] + [a for _, a in hl]
        tries.append((ts, ts + tc - 1, hl))
    R.targets, R.succ, R.tries = targets, succ, tries
    return R


def prepend_nops(dex, d, m):
    """edit through the public API: two nops in front of the code.  Every branch and payload reference is relative, so
    the method stays well formed, payloads stay 4-byte aligned, and every instruction moves 4 bytes up."""
    cm = d.get_class_manager()
    old = list(m.get_instructions())
    m.set_instructions([dex.Instruction10x(cm, b'\x00\x00'), dex.Instruction10x(cm, b'\x00\x00')] + old)


def observe(B, dex, analysis, edit=False):
    """runs inside the explored path: real DEX() + MethodAnalysis, returns plain data with possibly symbolic offsets"""
    d = dex.DEX(SBytes(B.items))
    m = [x for x in d.get_encoded_methods() if x.get_name() == 'f'][0]
    ma = analysis.MethodAnalysis(d, m)
    if edit:
        # history on the same object: analysed, instruction list replaced, analysed again
        prepend_nops(dex, d, m)
        ma = analysis.MethodAnalysis(d, m)
    ins_list = list(m.get_instructions_idx())
    off_of = {id(ins): off for off, ins in ins_list}
    blocks = list(ma.get_basic_blocks().get())
    idx_of = {id(b): i for i, b in enumerate(blocks)}
    out = []
    for b in blocks:
        offs = []
        o = b.get_start()
        for ins in b.get_instructions():
            offs.append((o, ins.get_op_value(), ins.get_length()))
            o += ins.get_length()
        ea = b.get_exception_analysis()
        exc = None
        if ea is not None:
            exc = (ea.start, ea.end, [(e[0], e[1], idx_of.get(id(e[2]))) for e in ea.exceptions])
        special = {}
        for (o2, opv, ln) in offs:
            if opv in (0x26, 0x2b, 0x2c):
                sp = b.get_special_ins(o2)
                special[o2] = (None if sp is None else off_of.get(id(sp), 'foreign'), None if sp is None else type(sp).__name__)
        out.append(dict(start=b.get_start(), end=b.get_end(), ins=offs,
                        childs=[(c[0], c[1], idx_of.get(id(c[2]))) for c in b.childs],
                        fathers=[(f[0], f[1], idx_of.get(id(f[2]))) for f in b.fathers],
                        exc=exc, special=special))
    return dict(blocks=out, ins=[(off, ins.get_op_value(), ins.get_length()) for off, ins in ins_list])


def setup():
    dex = common.dexmod()
    analysis = common.analysismod()
    return dex, analysis


FLAVOURS = ('branches', 'try', 'switch', 'handler', 'payloadref')


def curated():
    """fixed templates that make sure every instruction kind and try layout is exercised in every run"""
    T = Template
    return [
        T(['c1', 'goto32', 'c2', 'ifz', 'c1', 'goto', 'c3', 'retv'], sym={'b1', 'b3', 'b5'}, seed=1),
        T(['goto16', 'c1', 'ift', 'nop', 'throw', 'c2', 'ret'], sym={'b0', 'b2'}, seed=2),
        T(['c2', 'pswitch', 'c1', 'goto32', 'c3', 'retv'], sym={'t1_0', 't1_1', 'b3'}, seed=3),
        T(['c1', 'sswitch', 'c2', 'ifz', 'nop', 'ret'], sym={'t1_0', 't1_1', 'b3'}, seed=4),
        T(['c1', 'c2', 'ifz', 'c1', 'c3', 'c1', 'retv'], tries=[dict(start=0, end=2, handler=5), dict(start=3, end=5, handler=5)],
          sym={'ts1', 'tc1', 'b2'}, seed=5, hmap=[0, 0]),
        T(['c1', 'c1', 'c2', 'c1', 'ifz', 'c1', 'c1', 'retv'],
          tries=[dict(start=0, end=1, handler=6), dict(start=2, end=3, handler=5), dict(start=3, end=5, handler=6)],
          sym={'ts2', 'tc2', 'b4'}, seed=10, hmap=[0, 1, 0]),
        T(['c1', 'c2', 'ifz', 'c1', 'c3', 'c1', 'retv'], tries=[dict(start=0, end=3, handler=4)],
          sym={'ts0', 'tc0', 'ca0'}, seed=11, hmap=[0], catch_all=[5]),
        T(['c1', 'goto16', 'c2', 'c1', 'c1', 'throw'], tries=[dict(start=0, end=2, handler=3), dict(start=2, end=4, handler=4)],
          sym={'th0', 'ca1', 'b1'}, seed=12, hmap=[0, 1], catch_all=[None, 5]),
        T(['c1', 'c2', 'goto32', 'c1', 'c3', 'c1', 'throw'], tries=[dict(start=0, end=2, handler=6), dict(start=3, end=5, handler=5)],
          sym={'ts0', 'tc0', 'th1'}, seed=6),
        T(['nop', 'ift', 'c2', 'c2', 'c1', 'ret'], tries=[dict(start=1, end=4, handler=4)], sym={'ts0', 'tc0', 'b1'}, seed=7),
        T(['c1', 'fill', 'c1', 'pswitch', 'ifz', 'retv'], sym={'r1', 'r3'}, seed=8),
        T(['c1', 'sswitch', 'c1', 'fill', 'c1', 'retv'], sym={'r1', 'r3'}, seed=9, misaligned=True),
    ]


def templates(seed, count):
    rnd = random.Random(seed * 7919 + 17)
    out = curated()
    count = max(0, count - len(out))
    for i in range(count):
        out.append(gen_template(rnd, FLAVOURS[i % len(FLAVOURS)]))
    return out


def concrete_instance(B, m):
    """bytes of the skeleton under a model (for replay)"""
    return bytes(mval(m, x) & 0xff for x in B.items)


def in_method(B, which):
    return which


# ------------------------------------------------------------------ concrete reference used by replay (independent)
BRANCH_OPS = {0x28, 0x29, 0x2a} | set(range(0x32, 0x3e)) | {0x2b, 0x2c, 0x0e, 0x0f, 0x10, 0x11, 0x27}


def concrete_cfg(dex, analysis_mod, blob, edit=False):
    """observed CFG of method f of a concrete skeleton, via the real code, as plain JSON-able data"""
    d = dex.DEX(blob)
    m = [x for x in d.get_encoded_methods() if x.get_name() == 'f'][0]
    ma = analysis_mod.MethodAnalysis(d, m)
    if edit:
        prepend_nops(dex, d, m)
        ma = analysis_mod.MethodAnalysis(d, m)
    ins_list = [(off, ins) for off, ins in m.get_instructions_idx()]
    off_of = {id(ins): off for off, ins in ins_list}
    blocks = list(ma.get_basic_blocks().get())
    idx_of = {id(b): i for i, b in enumerate(blocks)}
    out = []
    for b in blocks:
        offs = []
        o = b.get_start()
        for ins in b.get_instructions():
            offs.append([o, ins.get_op_value(), ins.get_length()])
            o += ins.get_length()
        ea = b.get_exception_analysis()
        exc = None if ea is None else [ea.start, ea.end, [[e[0], e[1], idx_of.get(id(e[2]))] for e in ea.exceptions]]
        special = {}
        for (o2, opv, ln) in offs:
            if opv in (0x26, 0x2b, 0x2c):
                sp = b.get_special_ins(o2)
                special[str(o2)] = None if sp is None else off_of.get(id(sp), 'foreign')
        out.append(dict(start=b.get_start(), end=b.get_end(), ins=offs,
                        childs=sorted([c[1], idx_of.get(id(c[2]))] for c in b.childs),
                        fathers=sorted([f[0], f[1], idx_of.get(id(f[2]))] for f in b.fathers),
                        exc=exc, special=special))
    ins = [[off, ins.get_op_value(), ins.get_length(), bytes(ins.get_raw()).hex()] for off, ins in ins_list]
    tries = dex.determineException(d, m)
    return dict(blocks=out, ins=ins)


def spec_cfg(ins, code_tries):
    """independent reference CFG from the disassembly `ins` = [[off, op, len, rawhex]] and tries
    [(start_byte, end_byte_inclusive, [handler byte addrs])]: leaders, successor sets, try overlap, payload links"""
    raw = {i[0]: bytes.fromhex(i[3]) for i in ins}
    starts = [i[0] for i in ins]
    op = {i[0]: i[1] for i in ins}
    ln = {i[0]: i[2] for i in ins}
    payload_starts = {o for o in starts if op[o] in (0x0100, 0x0200, 0x0300) or
                      (op[o] == 0 and raw[o][:2] in (b'\x00\x01', b'\x00\x02', b'\x00\x03'))}

    def s16(b):
        return int.from_bytes(b, 'little', signed=True)
    succ = {}
    leaders = {0}
    links = {}
    for o in starts:
        r = raw[o]
        k = op[o]
        nxt = o + ln[o]
        if o in payload_starts:
            continue
        if k == 0x28:
            succ[o] = [o + 2 * int.from_bytes(r[1:2], 'little', signed=True)]
        elif k == 0x29:
            succ[o] = [o + 2 * s16(r[2:4])]
        elif k == 0x2a:
            succ[o] = [o + 2 * s16(r[2:6])]
        elif 0x32 <= k <= 0x3d:
            succ[o] = [nxt, o + 2 * s16(r[2:4])]
        elif k in (0x2b, 0x2c, 0x26):
            ref = o + 2 * s16(r[2:6])
            links[o] = ref if ref in starts else None
            if k != 0x26:
                tg = [nxt]
                if ref in starts and ref % 4 == 0 and ref in payload_starts:
                    p = raw[ref]
                    if k == 0x2b and p[:2] == b'\x00\x01':
                        size = int.from_bytes(p[2:4], 'little')
                        tg += [o + 2 * s16(p[8 + 4 * j:12 + 4 * j]) for j in range(size)]
                    elif k == 0x2c and p[:2] == b'\x00\x02':
                        size = int.from_bytes(p[2:4], 'little')
                        tg += [o + 2 * s16(p[4 + 4 * size + 4 * j:8 + 4 * size + 4 * j]) for j in range(size)]
                succ[o] = tg
        elif k in (0x0e, 0x0f, 0x10, 0x11, 0x27):
            succ[o] = []
        if o in succ:
            leaders |= {x for x in succ[o] if x in starts}
            if nxt in starts:
                leaders.add(nxt)
    for (ts, te, hs) in code_tries:
        leaders.add(ts)
        leaders |= set(hs)
    return dict(leaders=sorted(x for x in leaders if x in starts), succ=succ, links=links)


# ------------------------------------------------------------------ the check itself (shared by C10 C11 C12 C40)
FUNCS = ['androguard.core.analysis.analysis.MethodAnalysis._create_basic_block', 'DEXBasicBlock.push/set_childs/set_fathers/'
         'get_special_ins', 'BasicBlocks.get_basic_block', 'BasicOPCODES', 'Exceptions.add/get_exception', 'ExceptionAnalysis',
         'androguard.core.dex.determineNext', 'determineException', 'DCode.get_ins_off', 'EncodedMethod.get_instructions_idx',
         'DEX.__init__ (full parse of the skeleton)', 'LinearSweepAlgorithm.get_instructions']


def any_eq(term, values):
    return z3.Or([term == v for v in values] + [z3.BoolVal(False)])


def job(jc, spec):
    which, t = spec[:2]
    edit = len(spec) > 2 and spec[2] == 'edit'
    shift = 4 if edit else 0
    dex, analysis = setup()
    B = build(t)
    R = reference(B, shift)
    hook.ZL.value = int.from_bytes(B.blob[8:12], 'little')
    eng = jc.new_engine(pre=B.pre)
    import time as _time
    t_start = _time.time()
    total = 2 * B.total_units + shift
    starts = ([0, 2] if edit else []) + [x + shift for x in B.starts_all]
    label = '%s %s%s' % (which, '/'.join(t.body), ' [analysed, two nops prepended with set_instructions, analysed again]' if edit else '')

    def ext(m):
        tries = []
        for (ts, te, hl) in R.tries:
            ev = lambda e: m.eval(e, model_completion=True).as_signed_long()
            tries.append([ev(ts), ev(te), [ev(a) for _, a in hl], [n for n, _ in hl]])
        return dict(prop=which, blob=concrete_instance(B, m).hex(), tries=tries, history=decoy.hex(), edit=edit)
    regions = {}
    if which == 'C12':
        # finding region: a try range that ends strictly inside a block which started inside it
        pass
    decoy = bytes(B.blob)

    def go():
        # history: the process has analysed another file of the same layout before (the template with its default
        # operands); what it learnt there must not leak into this analysis.  Replays repeat the same history.
        concrete_cfg(dex, analysis, decoy)
        return observe(B, dex, analysis, edit)
    for pc, (kind, ob) in eng.explore(go, keep_pcs=True):
        jc.reached('explored')
        if kind == 'exc':
            jc.obligation(eng, pc, z3.BoolVal(False), ext, label=label, what='analysis raised %r' % (ob,))
            continue
        blocks = ob['blocks']
        sweep_ok = [o for o, _, _ in ob['ins']] == starts
        obs = {}
        if which == 'C10':
            part = bool(blocks) and blocks[0]['start'] == 0 and blocks[-1]['end'] == total and \
                all(blocks[i]['end'] == blocks[i + 1]['start'] for i in range(len(blocks) - 1))
            flat = [x for b in blocks for x in b['ins']]
            cover = [x[0] for x in flat] == starts and all(b['ins'] and b['ins'][0][0] == b['start'] for b in blocks)
            obs['blocks partition the instructions in order'] = z3.BoolVal(part and cover and sweep_ok)
            bstarts = [b['start'] for b in blocks]
            obs['every branch/switch target, try start and handler begins a block'] = z3.And(
                [any_eq(tg, bstarts) for tg in R.targets] + [z3.BoolVal(True)])
            only_last = all(x[1] not in BRANCH_OPS for b in blocks for x in b['ins'][:-1])
            obs['only the last instruction of a block branches'] = z3.BoolVal(only_last)
        elif which == 'C11':
            idx_of_off = {2 * u + shift: i for i, u in enumerate(B.uoff)}
            fathers_expected = {i: [] for i in range(len(blocks))}
            for bi, b in enumerate(blocks):
                lo = b['ins'][-1][0]
                if lo in idx_of_off and idx_of_off[lo] in R.succ:
                    E = R.succ[idx_of_off[lo]]
                else:
                    E = [z3.BitVecVal(b['end'], W)] if b['end'] < total else []
                O = b['childs']
                c1 = z3.And([any_eq(e, [bv(o[1]) for o in O]) for e in E] + [z3.BoolVal(True)])
                c2 = z3.And([any_eq(bv(o[1]), E) for o in O] + [z3.BoolVal(True)])
                c3 = z3.And([z3.And(z3.BoolVal(o[2] is not None),
                                    bv(o[1]) == (blocks[o[2]]['start'] if o[2] is not None else -1),
                                    z3.BoolVal(o[0] == lo)) for o in O] + [z3.BoolVal(True)])
                obs['successors of block @%d' % b['start']] = z3.And(c1, c2, c3)
                for o in O:
                    if o[2] is not None:
                        fathers_expected[o[2]].append((o[1], lo, bi))
            for bi, b in enumerate(blocks):
                F = b['fathers']
                X = fathers_expected[bi]
                def same(f, x):
                    return z3.And(bv(f[0]) == bv(x[0]), z3.BoolVal(f[1] == x[1] and f[2] == x[2]))
                obs['predecessors of block @%d' % b['start']] = z3.And(
                    [z3.Or([same(f, x) for x in X] + [z3.BoolVal(False)]) for f in F] +
                    [z3.Or([same(f, x) for f in F] + [z3.BoolVal(False)]) for x in X] + [z3.BoolVal(True)])
        elif which == 'C12':
            for b in blocks:
                bs, be = b['start'], b['end']
                ovs = [z3.And(ts <= be - 1, te >= bs) for (ts, te, hl_) in R.tries]
                if b['exc'] is None:
                    obs['block @%d reports no handlers' % bs] = z3.Not(z3.Or(ovs + [z3.BoolVal(False)]))
                else:
                    es, ee, hl = b['exc']
                    alts = []
                    for (ts, te, want_hl), ov in zip(R.tries, ovs):
                        hok = len(hl) == len(want_hl) and all(g[0] == w_[0] and g[2] is not None for g, w_ in zip(hl, want_hl))
                        conds = [ov, bv(es) == ts, bv(ee) == te, z3.BoolVal(hok)]
                        if hok:
                            for g, w_ in zip(hl, want_hl):
                                conds += [bv(g[1]) == w_[1], blocks[g[2]]['start'] == w_[1]]
                        alts.append(z3.And(conds))
                    obs['block @%d reports the try range covering it' % bs] = z3.Or(alts + [z3.BoolVal(False)])
        elif which == 'C40':
            obs['disassembly offsets'] = z3.BoolVal(sweep_ok)
            bounds = all(b['start'] in starts and (b['end'] in starts or b['end'] == total) for b in blocks)
            obs['block boundaries are instruction offsets'] = z3.BoolVal(bounds)
            terms = [bv(c[1]) for b in blocks for c in b['childs']] + [bv(f[0]) for b in blocks for f in b['fathers']] + \
                    [bv(h[1]) for b in blocks if b['exc'] for h in b['exc'][2]]
            if not any(x.startswith('r') for x in t.sym):
                # (with a symbolic payload reference a switch may read another switch's payload, whose targets are
                # relative to the other instruction: such code is not well formed and its edges are not constrained)
                obs['edge / handler offsets are instruction offsets'] = z3.And([any_eq(x, starts) for x in terms] + [z3.BoolVal(True)])
            for b in blocks:
                for o2, (spoff, sptype) in b['special'].items():
                    i = B.uoff.index((o2 - shift) // 2)
                    link = 2 * B.q('r%d' % i) + o2
                    if spoff is None:
                        obs['payload link of @%d' % o2] = z3.Not(any_eq(link, starts))
                    else:
                        obs['payload link of @%d' % o2] = z3.And(z3.BoolVal(isinstance(spoff, int)), link == spoff)
        jc.obligations(eng, pc, obs, ext, regions, label=label, what='%s: violated')
    eng.partition_guard()
    jc.sample(dict(template=t.describe(), paths=eng.st.paths), limit=6)
    if os.environ.get('VERIF_TIMING'):
        sys.stderr.write('TIMING %s %s sym=%s paths=%d queries=%d solver=%.1fs wall=%.1fs\n' % (
            which, '/'.join(t.body), sorted(t.sym), eng.st.paths, eng.st.queries, eng.st.solver_s, _time.time() - t_start))


def run(ctx, which):
    setup()
    count = {'quick': 20, 'thorough': 150}[ctx.tier]
    ts = templates(ctx.seed, count)
    if which == 'C40':
        ts = [t for t in ts if any(k in ('pswitch', 'sswitch', 'fill') for k in t.body)] + \
             [t for i, t in enumerate(templates(ctx.seed + 1, count)) if i >= len(curated()) and any(s.startswith('r') for s in t.sym)]
    else:
        # a symbolic payload reference changes which payload a switch uses: those templates belong to C40 only
        ts = [t for t in ts if not any(s.startswith('r') for s in t.sym)]
    ctx.functions_encoded = FUNCS
    ctx.bounds = dict(templates=len(ts), slots='5..8 body instructions + payloads', symbolic_per_template='<= 3-4 quantities: '
                      'branch offsets (8/16/32 bit, full width), switch targets (32 bit), payload reference (32 bit), try '
                      'start_addr (32 bit) / insn_count (16 bit) / handler address (uleb 1 byte)',
                      tier_note='12 curated templates (every instruction kind, shared and distinct handler lists) + seeded ones: quick 20 / thorough 150 in total, 5 flavours')
    ctx.stubs = ['SymStruct / SymIO for the whole DEX parse', 'adler32 stub returning the skeleton checksum', 'NullLogger',
                 'every path first analyses the template with its default operands (process history), replays do the same']
    ctx.assumptions = ['well-formed code: every branch / switch target and handler address is an instruction start of the '
                       'method body, tries are non-empty, ordered and end on an instruction boundary',
                       'successor and predecessor lists are compared as sets (DESIGN 5a)',
                       'switch payloads are 4-byte aligned except in the payload-reference templates of C40']
    ctx.outside_claim = ['methods longer than the templates; more symbolic quantities at once; verification-invalid targets']
    # Serval-style validation: the concrete skeletons through hooked and unhooked module
    import sys as _sys
    mod = _sys.modules['vf.checks.%s' % which.lower()]
    cases = [build(t).blob.hex() for t in ts[:8]]
    ctx.diff_unhooked(mod, cases)
    jobs = [(which, t) for t in ts]
    if which in ('C40', 'C10', 'C11'):
        # the same templates once more with an edit between two analyses (templates without try items: set_instructions
        # does not move try ranges, so a shifted method with tries is not well formed)
        jobs += [(which, t, 'edit') for t in ts if not t.tries]
        ctx.bounds['edited'] = '%d templates also analysed, edited with set_instructions (two nops in front) and analysed again' % (
            len(jobs) - len(ts))
    ctx.pmap(job, jobs)


def concrete(c):
    from androguard.core import dex
    from androguard.core.analysis import analysis
    blob = bytes.fromhex(c)
    if hasattr(dex.zlib, 'calls'):
        dex.zlib.value = int.from_bytes(blob[8:12], 'little')
    return concrete_cfg(dex, analysis, blob)


def replay(w):
    from androguard.core import dex
    from androguard.core.analysis import analysis
    blob = dexasm.fix_checksum(bytes.fromhex(w['blob']))
    which = w['prop']
    try:
        if w.get('history'):
            concrete_cfg(dex, analysis, dexasm.fix_checksum(bytes.fromhex(w['history'])))
        got = concrete_cfg(dex, analysis, blob, bool(w.get('edit')))
    except Exception as e:
        return True, 'analysis of the witness method raised %r' % e
    spec = spec_cfg(got['ins'], [(t_[0], t_[1], t_[2]) for t_ in w['tries']])
    blocks = got['blocks']
    starts = [i[0] for i in got['ins']]
    total = starts[-1] + got['ins'][-1][2]
    bad = []
    bstarts = [b['start'] for b in blocks]
    if which == 'C10':
        if not (blocks and blocks[0]['start'] == 0 and blocks[-1]['end'] == total and
                all(blocks[i]['end'] == blocks[i + 1]['start'] for i in range(len(blocks) - 1)) and
                [x[0] for b in blocks for x in b['ins']] == starts):
            bad.append('blocks do not partition the instructions')
        miss = [l for l in spec['leaders'] if l not in bstarts]
        if miss:
            bad.append('targets/try starts/handlers %s do not begin a block (blocks start at %s)' % (miss, bstarts))
        for b in blocks:
            for x in b['ins'][:-1]:
                if x[1] in BRANCH_OPS:
                    bad.append('branching instruction at %d is not the last of its block' % x[0])
    elif which == 'C11':
        exp_f = {i: [] for i in range(len(blocks))}
        for bi, b in enumerate(blocks):
            lo = b['ins'][-1][0]
            E = spec['succ'].get(lo)
            if E is None:
                E = [b['end']] if b['end'] < total else []
            got_t = sorted(set(c[0] for c in b['childs']))
            if got_t != sorted(set(x for x in E if x in starts)):
                bad.append('block @%d: successors %s, bytecode allows %s' % (b['start'], got_t, sorted(set(E))))
            for c in b['childs']:
                if c[1] is None or blocks[c[1]]['start'] != c[0]:
                    bad.append('block @%d: child for target %d is not the block starting there' % (b['start'], c[0]))
                else:
                    exp_f[c[1]].append([c[0], lo, bi])
        for bi, b in enumerate(blocks):
            if sorted(map(tuple, b['fathers'])) != sorted(set(map(tuple, exp_f[bi]))) and \
                    sorted(set(map(tuple, b['fathers']))) != sorted(set(map(tuple, exp_f[bi]))):
                bad.append('block @%d: predecessors %s are not the inverse of the successor relation %s' % (
                    b['start'], b['fathers'], exp_f[bi]))
    elif which == 'C12':
        for b in blocks:
            cov = [t for t in w['tries'] if t[0] <= b['end'] - 1 and t[1] >= b['start']]
            if not cov and b['exc'] is not None:
                bad.append('block [%d,%d) reports try %s which covers none of its instructions' % (b['start'], b['end'], b['exc'][:2]))
            if cov and (b['exc'] is None or [b['exc'][0], b['exc'][1]] not in [[t[0], t[1]] for t in cov]):
                bad.append('block [%d,%d) is covered by try [%d,%d] but reports %s' % (
                    b['start'], b['end'], cov[0][0], cov[0][1], None if b['exc'] is None else b['exc'][:2]))
            elif cov:
                t_ = [t for t in cov if [t[0], t[1]] == [b['exc'][0], b['exc'][1]]][0]
                want_h = [[n, a] for n, a in zip(t_[3], t_[2])] if len(t_) > 3 else None
                got_h = [[h[0], h[1]] for h in b['exc'][2]]
                if want_h is not None and got_h != want_h:
                    bad.append('block [%d,%d): handlers %r, the try item encodes %r' % (b['start'], b['end'], got_h, want_h))
                elif any(h[2] is None or blocks[h[2]]['start'] != h[1] for h in b['exc'][2]):
                    bad.append('block [%d,%d): a handler block does not start at its handler address' % (b['start'], b['end']))
    elif which == 'C40':
        for b in blocks:
            if b['start'] not in starts:
                bad.append('block start %d is not an instruction offset' % b['start'])
            for o, sp in b['special'].items():
                if spec['links'].get(int(o)) != sp:
                    bad.append('instruction @%s links payload @%s, its operand encodes %s' % (o, sp, spec['links'].get(int(o))))
            for c in b['childs']:
                if c[0] not in starts:
                    bad.append('edge target %d is not an instruction offset' % c[0])
    return bool(bad), '; '.join(bad[:3]) + ' | code: ' + ' '.join(i[3] for i in got['ins'])
