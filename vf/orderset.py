"""OrderSet: stand-in for `set` inside androguard.decompiler.* during C22.  Python leaves the iteration order of a set
unspecified; for elements whose hash depends on PYTHONHASHSEED (str, bytes, tuples containing them) or on the memory
layout (objects hashed by identity) every order can occur.  Each time an order is consumed (iteration, pop) the
PLAN decides which permutation is used.  Sets whose elements all hash deterministically (ints, tuples of ints, ...) keep
the order CPython really produces, because no run can show another one."""
from collections.abc import MutableSet


class Plan:
    def __init__(self):
        self.reset()

    def reset(self, chooser=None):
        self.counter = 0
        self.sizes = []          # size of the set at every order-consuming site, in execution order
        self.chooser = chooser   # f(site index, size) -> permutation (tuple) or None for the insertion order


PLAN = Plan()


def stable_hash(x):
    if x is None or isinstance(x, (bool, int, float)):
        return True
    if isinstance(x, (tuple, frozenset)):
        return all(stable_hash(y) for y in x)
    return False


class OrderSet(MutableSet):
    def __init__(self, it=()):
        self.d = {}
        for x in it:
            self.d[x] = None

    def __contains__(self, x):
        return x in self.d

    def __len__(self):
        return len(self.d)

    def _order(self):
        items = list(self.d)
        if len(items) < 2:
            return items
        if all(stable_hash(x) for x in items):
            return list(set(items))          # the one order CPython gives for these elements (insertion history aside)
        k = PLAN.counter
        PLAN.counter += 1
        PLAN.sizes.append(len(items))
        if PLAN.chooser is not None:
            perm = PLAN.chooser(k, len(items))
            if perm is not None:
                items = [items[i] for i in perm]
        return items

    def __iter__(self):
        return iter(self._order())

    def add(self, x):
        self.d[x] = None

    def discard(self, x):
        self.d.pop(x, None)

    def remove(self, x):
        del self.d[x]

    def pop(self):
        if not self.d:
            raise KeyError('pop from an empty set')
        x = self._order()[0]
        del self.d[x]
        return x

    def clear(self):
        self.d.clear()

    def update(self, *its):
        for it in its:
            for x in list(it):
                self.d[x] = None

    def union(self, *its):
        r = OrderSet(self.d)
        r.update(*its)
        return r

    def intersection(self, *its):
        r = OrderSet(self.d)
        for it in its:
            s = set(it)
            r = OrderSet(x for x in r.d if x in s)
        return r

    def difference(self, *its):
        r = OrderSet(self.d)
        for it in its:
            for x in list(it):
                r.discard(x)
        return r

    def symmetric_difference(self, o):
        o = list(o)
        return OrderSet([x for x in self.d if x not in set(o)] + [x for x in o if x not in self.d])

    def difference_update(self, *its):
        for it in its:
            for x in list(it):
                self.discard(x)

    def intersection_update(self, *its):
        self.d = self.intersection(*its).d

    def copy(self):
        return OrderSet(self.d)

    def issubset(self, o):
        return all(x in o for x in self.d)

    def issuperset(self, o):
        return all(x in self.d for x in o)

    def isdisjoint(self, o):
        return not any(x in self.d for x in o)

    def __repr__(self):
        return 'OrderSet(%r)' % list(self.d)

    @classmethod
    def _from_iterable(cls, it):
        return cls(it)
