"""dexasm - minimal DEX writer (design-phase scratch prototype).

Model:
  DexFile(classes=[Cls(...)])
  Cls(name, access=1, superclass='Ljava/lang/Object;', interfaces=(), source=None,
      sfields=[Fld], ifields=[Fld], dmethods=[Mth], vmethods=[Mth], static_values=None)
  Fld(name, type, access)
  Mth(name, ret, params, access, code=None)
  Code(registers, ins, outs, build, tries=(), handlers=())
     build(P) -> list of 16-bit code units; P.string/type/field/method give pool indices
     tries: [(start_addr, insn_count, handler_index)]
     handlers: [([(type_desc, addr), ...], catch_all_addr_or_None)]
"""
import struct
import zlib
import hashlib
from dataclasses import dataclass, field


def uleb(v):
    out = bytearray()
    while True:
        b = v & 0x7f
        v >>= 7
        if v:
            out.append(b | 0x80)
        else:
            out.append(b)
            return bytes(out)


def sleb(v):
    out = bytearray()
    while True:
        b = v & 0x7f
        v >>= 7
        if (v == 0 and not b & 0x40) or (v == -1 and b & 0x40):
            out.append(b)
            return bytes(out)
        out.append(b | 0x80)


def mutf8(s):
    out = bytearray()
    for ch in s:
        c = ord(ch)
        units = [c] if c < 0x10000 else [0xd800 + ((c - 0x10000) >> 10), 0xdc00 + ((c - 0x10000) & 0x3ff)]
        for u in units:
            if u == 0:
                out += b'\xc0\x80'
            elif u < 0x80:
                out.append(u)
            elif u < 0x800:
                out += bytes([0xc0 | (u >> 6), 0x80 | (u & 0x3f)])
            else:
                out += bytes([0xe0 | (u >> 12), 0x80 | ((u >> 6) & 0x3f), 0x80 | (u & 0x3f)])
    return bytes(out)


def utf16len(s):
    return sum(1 if ord(c) < 0x10000 else 2 for c in s)


@dataclass
class Fld:
    name: str
    type: str
    access: int = 1


@dataclass
class Code:
    registers: int
    ins: int
    outs: int
    build: object
    tries: tuple = ()
    handlers: tuple = ()


@dataclass
class Mth:
    name: str
    ret: str
    params: tuple
    access: int = 1
    code: Code = None


@dataclass
class Cls:
    name: str
    access: int = 1
    superclass: str = 'Ljava/lang/Object;'
    interfaces: tuple = ()
    source: str = None
    sfields: list = field(default_factory=list)
    ifields: list = field(default_factory=list)
    dmethods: list = field(default_factory=list)
    vmethods: list = field(default_factory=list)
    static_values: bytes = None      # raw encoded_array bytes


def shorty(ret, params):
    def s(t):
        return 'L' if t[0] in 'L[' else t
    return s(ret) + ''.join(s(p) for p in params)


class Pools:
    def __init__(self):
        self.strings = set()
        self.types = set()
        self.protos = set()
        self.fields = set()
        self.methods = set()
        self.final = False

    # registration / lookup
    def string(self, s):
        if not self.final:
            self.strings.add(s)
            return 0
        return self.s_idx[s]

    def type(self, t):
        if not self.final:
            self.types.add(t)
            self.string(t)
            return 0
        return self.t_idx[t]

    def proto(self, ret, params):
        params = tuple(params)
        if not self.final:
            self.protos.add((ret, params))
            self.type(ret)
            for p in params:
                self.type(p)
            self.string(shorty(ret, params))
            return 0
        return self.p_idx[(ret, params)]

    def field(self, cls, name, typ):
        if not self.final:
            self.fields.add((cls, name, typ))
            self.type(cls); self.type(typ); self.string(name)
            return 0
        return self.f_idx[(cls, name, typ)]

    def method(self, cls, name, ret, params):
        params = tuple(params)
        if not self.final:
            self.methods.add((cls, name, ret, params))
            self.type(cls); self.string(name); self.proto(ret, params)
            return 0
        return self.m_idx[(cls, name, ret, params)]

    def finalize(self):
        self.final = True
        self.s_list = sorted(self.strings, key=lambda s: [ord(c) for c in s])
        self.s_idx = {s: i for i, s in enumerate(self.s_list)}
        self.t_list = sorted(self.types, key=lambda t: self.s_idx[t])
        self.t_idx = {t: i for i, t in enumerate(self.t_list)}
        self.p_list = sorted(self.protos, key=lambda p: (self.t_idx[p[0]], [self.t_idx[x] for x in p[1]]))
        self.p_idx = {p: i for i, p in enumerate(self.p_list)}
        self.f_list = sorted(self.fields, key=lambda f: (self.t_idx[f[0]], self.s_idx[f[1]], self.t_idx[f[2]]))
        self.f_idx = {f: i for i, f in enumerate(self.f_list)}
        self.m_list = sorted(self.methods, key=lambda m: (self.t_idx[m[0]], self.s_idx[m[1]], self.p_idx[(m[2], m[3])]))
        self.m_idx = {m: i for i, m in enumerate(self.m_list)}


class Layout:
    """records offsets of interesting things for overlays"""
    def __init__(self):
        self.code_off = {}       # (cls, name) -> code_item offset
        self.insns_off = {}      # (cls, name) -> offset of first insn
        self.tries_off = {}
        self.handlers_off = {}
        self.class_def_off = {}
        self.class_data_off = {}
        self.sections = {}
        self.map_off = 0


def assemble(classes, extra=None, version=b'035'):
    P = Pools()

    def register():
        for c in classes:
            P.type(c.name)
            if c.superclass:
                P.type(c.superclass)
            for i in c.interfaces:
                P.type(i)
            if c.source:
                P.string(c.source)
            for f in c.sfields + c.ifields:
                P.field(c.name, f.name, f.type)
            for m in c.dmethods + c.vmethods:
                P.method(c.name, m.name, m.ret, m.params)
                if m.code:
                    m.code.build(P)
                    for hl, _ in m.code.handlers:
                        for t, _a in hl:
                            P.type(t)
        if extra:
            extra(P)
    register()
    P.finalize()

    L = Layout()
    ns, nt, npr, nf, nm, nc = len(P.s_list), len(P.t_list), len(P.p_list), len(P.f_list), len(P.m_list), len(classes)
    off = 0x70
    string_ids_off = off; off += 4 * ns
    type_ids_off = off; off += 4 * nt
    proto_ids_off = off; off += 12 * npr
    field_ids_off = off; off += 8 * nf
    method_ids_off = off; off += 8 * nm
    class_defs_off = off; off += 32 * nc
    data_off = off
    data = bytearray()

    def align4():
        while (data_off + len(data)) % 4:
            data.append(0)

    def here():
        return data_off + len(data)

    # type lists
    tl_off = {}
    tl_items = []
    def need_tl(types):
        types = tuple(types)
        if types and types not in tl_off:
            tl_off[types] = None
            tl_items.append(types)
    for ret, params in P.p_list:
        need_tl(params)
    for c in classes:
        need_tl(c.interfaces)
    align4()
    type_lists_off = here()
    for types in tl_items:
        align4()
        tl_off[types] = here()
        data += struct.pack('<I', len(types)) + b''.join(struct.pack('<H', P.t_idx[t]) for t in types)

    # code items
    align4()
    code_items_off = here()
    ncode = 0
    for c in classes:
        for m in c.dmethods + c.vmethods:
            if not m.code:
                continue
            align4()
            ncode += 1
            units = m.code.build(P)
            L.code_off[(c.name, m.name)] = here()
            data += struct.pack('<4H2I', m.code.registers, m.code.ins, m.code.outs, len(m.code.tries), 0, len(units))
            L.insns_off[(c.name, m.name)] = here()
            data += b''.join(struct.pack('<H', u & 0xffff) for u in units)
            if m.code.tries:
                if len(units) % 2:
                    data += b'\x00\x00'
                # handlers first to know offsets
                hbytes = bytearray(uleb(len(m.code.handlers)))
                hoffs = []
                for hl, call in m.code.handlers:
                    hoffs.append(len(hbytes))
                    hbytes += sleb(-len(hl) if call is not None else len(hl))
                    for t, a in hl:
                        hbytes += uleb(P.t_idx[t]) + uleb(a)
                    if call is not None:
                        hbytes += uleb(call)
                L.tries_off[(c.name, m.name)] = here()
                for start, count, hidx in m.code.tries:
                    data += struct.pack('<IHH', start, count, hoffs[hidx])
                L.handlers_off[(c.name, m.name)] = here()
                data += hbytes

    # class data
    class_data_off = {}
    class_data_first = here()
    ncd = 0
    for c in classes:
        if not (c.sfields or c.ifields or c.dmethods or c.vmethods):
            continue
        ncd += 1
        class_data_off[c.name] = here()
        L.class_data_off[c.name] = here()
        sf = sorted(c.sfields, key=lambda f: P.f_idx[(c.name, f.name, f.type)])
        inf = sorted(c.ifields, key=lambda f: P.f_idx[(c.name, f.name, f.type)])
        dm = sorted(c.dmethods, key=lambda m: P.m_idx[(c.name, m.name, m.ret, tuple(m.params))])
        vm = sorted(c.vmethods, key=lambda m: P.m_idx[(c.name, m.name, m.ret, tuple(m.params))])
        data += uleb(len(sf)) + uleb(len(inf)) + uleb(len(dm)) + uleb(len(vm))
        for lst in (sf, inf):
            prev = 0
            for f in lst:
                i = P.f_idx[(c.name, f.name, f.type)]
                data += uleb(i - prev) + uleb(f.access)
                prev = i
        for lst in (dm, vm):
            prev = 0
            for m in lst:
                i = P.m_idx[(c.name, m.name, m.ret, tuple(m.params))]
                data += uleb(i - prev) + uleb(m.access) + uleb(L.code_off.get((c.name, m.name), 0))
                prev = i

    # encoded arrays (static values)
    sv_off = {}
    enc_first = here()
    nenc = 0
    for c in classes:
        if c.static_values is not None:
            nenc += 1
            sv_off[c.name] = here()
            data += c.static_values

    # string data
    string_data_off = []
    string_data_first = here()
    for s in P.s_list:
        string_data_off.append(here())
        data += uleb(utf16len(s)) + mutf8(s) + b'\x00'

    # map list
    align4()
    map_off = here()
    L.map_off = map_off
    entries = [(0x0000, 1, 0), (0x0001, ns, string_ids_off), (0x0002, nt, type_ids_off)]
    if npr: entries.append((0x0003, npr, proto_ids_off))
    if nf: entries.append((0x0004, nf, field_ids_off))
    if nm: entries.append((0x0005, nm, method_ids_off))
    if nc: entries.append((0x0006, nc, class_defs_off))
    if tl_items: entries.append((0x1001, len(tl_items), type_lists_off))
    if ncode: entries.append((0x2001, ncode, code_items_off))
    if ncd: entries.append((0x2000, ncd, class_data_first))
    if nenc: entries.append((0x2005, nenc, enc_first))
    entries.append((0x2002, ns, string_data_first))
    entries.append((0x1000, 1, map_off))
    entries.sort(key=lambda e: e[2])
    data += struct.pack('<I', len(entries))
    L.map_entries_off = here()
    for t, n, o in entries:
        data += struct.pack('<HHII', t, 0, n, o)
    L.map_entries = entries

    # id sections
    ids = bytearray()
    for o in string_data_off:
        ids += struct.pack('<I', o)
    for t in P.t_list:
        ids += struct.pack('<I', P.s_idx[t])
    for ret, params in P.p_list:
        ids += struct.pack('<III', P.s_idx[shorty(ret, params)], P.t_idx[ret], tl_off.get(tuple(params), 0) or 0)
    for cls, name, typ in P.f_list:
        ids += struct.pack('<HHI', P.t_idx[cls], P.t_idx[typ], P.s_idx[name])
    for cls, name, ret, params in P.m_list:
        ids += struct.pack('<HHI', P.t_idx[cls], P.p_idx[(ret, params)], P.s_idx[name])
    for c in classes:
        L.class_def_off[c.name] = 0x70 + len(ids)
        ids += struct.pack('<8I', P.t_idx[c.name], c.access,
                           P.t_idx[c.superclass] if c.superclass else 0xffffffff,
                           tl_off.get(tuple(c.interfaces), 0) or 0,
                           P.s_idx[c.source] if c.source else 0xffffffff, 0,
                           class_data_off.get(c.name, 0), sv_off.get(c.name, 0))
    assert 0x70 + len(ids) == data_off
    L.sections = dict(string_ids=string_ids_off, type_ids=type_ids_off, proto_ids=proto_ids_off,
                      field_ids=field_ids_off, method_ids=method_ids_off, class_defs=class_defs_off, data=data_off)

    file_size = data_off + len(data)
    hdr = bytearray(0x70)
    hdr[0:8] = b'dex\n' + version + b'\x00'
    struct.pack_into('<I', hdr, 32, file_size)
    struct.pack_into('<I', hdr, 36, 0x70)
    struct.pack_into('<I', hdr, 40, 0x12345678)
    struct.pack_into('<II', hdr, 44, 0, 0)
    struct.pack_into('<I', hdr, 52, map_off)
    struct.pack_into('<II', hdr, 56, ns, string_ids_off)
    struct.pack_into('<II', hdr, 64, nt, type_ids_off)
    struct.pack_into('<II', hdr, 72, npr, proto_ids_off if npr else 0)
    struct.pack_into('<II', hdr, 80, nf, field_ids_off if nf else 0)
    struct.pack_into('<II', hdr, 88, nm, method_ids_off if nm else 0)
    struct.pack_into('<II', hdr, 96, nc, class_defs_off if nc else 0)
    struct.pack_into('<II', hdr, 104, len(data), data_off)
    blob = bytearray(hdr + ids + data)
    blob[12:32] = hashlib.sha1(bytes(blob[32:])).digest()
    struct.pack_into('<I', blob, 8, zlib.adler32(bytes(blob[12:])))
    return bytes(blob), P, L


def fix_checksum(blob):
    blob = bytearray(blob)
    blob[12:32] = hashlib.sha1(bytes(blob[32:])).digest()
    struct.pack_into('<I', blob, 8, zlib.adler32(bytes(blob[12:])))
    return bytes(blob)
