"""SStr: string with concrete length and symbolic code points (DESIGN.md 2.2)."""
import z3
from .engine import SInt, SBool, SBytes, bv, W, Inconclusive, mval

CPMAX = 0x10FFFF


def cpt(x):
    return bv(x)


def fresh_char(name, bits=21):
    b = z3.BitVec(name, bits)
    return SInt(z3.ZeroExt(W - bits, b), 0, (1 << bits) - 1)


def _norm(e, hi=(1 << 21) - 1):
    e = z3.simplify(e)
    return e.as_long() if z3.is_bv_value(e) else SInt(e, 0, hi)


class SStr:
    def __init__(self, chars=()):
        self.c = list(chars)

    @staticmethod
    def of(x):
        if isinstance(x, SStr):
            return x
        if isinstance(x, str):
            return SStr([ord(ch) for ch in x])
        raise TypeError(type(x))

    def is_concrete(self):
        return all(isinstance(x, int) for x in self.c)

    def __len__(self):
        return len(self.c)

    def __iter__(self):
        return (SStr([x]) for x in self.c)

    def __getitem__(self, i):
        if isinstance(i, slice):
            return SStr(self.c[i])
        return SStr([self.c[i]])

    def __add__(self, o):
        if not isinstance(o, (str, SStr)):
            return NotImplemented
        return SStr(self.c + SStr.of(o).c)

    def __radd__(self, o):
        if not isinstance(o, (str, SStr)):
            return NotImplemented
        return SStr(SStr.of(o).c + self.c)

    def __mul__(self, n):
        return SStr(self.c * n)

    def eq_term(self, o):
        o = SStr.of(o)
        if len(o) != len(self):
            return z3.BoolVal(False)
        return z3.And([cpt(a) == cpt(b) for a, b in zip(self.c, o.c)] + [z3.BoolVal(True)])

    _eq_term = eq_term

    def __eq__(self, o):
        if not isinstance(o, (str, SStr)):
            return False
        return bool(SBool(self.eq_term(o)))

    def __ne__(self, o):
        return not self.__eq__(o)

    def _cmp1(self, o, op):
        o = SStr.of(o)
        if not (len(self) == 1 and len(o) == 1):
            raise Inconclusive("SStr ordering only for single characters")
        a, b = cpt(self.c[0]), cpt(o.c[0])
        return SBool({'<': a < b, '<=': a <= b, '>': a > b, '>=': a >= b}[op])

    def __lt__(self, o): return self._cmp1(o, '<')
    def __le__(self, o): return self._cmp1(o, '<=')
    def __gt__(self, o): return self._cmp1(o, '>')
    def __ge__(self, o): return self._cmp1(o, '>=')

    def __hash__(self):
        raise TypeError("SStr is unhashable: wrap the dict in SymDict")

    def __bool__(self):
        return len(self.c) > 0

    def contains_term(self, sub):
        sub = SStr.of(sub)
        n = len(sub)
        conds = [z3.And([cpt(self.c[i + k]) == cpt(sub.c[k]) for k in range(n)] + [z3.BoolVal(True)])
                 for i in range(len(self) - n + 1)]
        return z3.Or(conds + [z3.BoolVal(False)])

    def __contains__(self, sub):
        return bool(SBool(self.contains_term(sub)))

    def startswith(self, p):
        if isinstance(p, tuple):
            return any(self.startswith(x) for x in p)
        p = SStr.of(p)
        if len(p) > len(self):
            return False
        return bool(SBool(SStr(self.c[:len(p)]).eq_term(p)))

    def endswith(self, p):
        if isinstance(p, tuple):
            return any(self.endswith(x) for x in p)
        p = SStr.of(p)
        if len(p) > len(self):
            return False
        return bool(SBool(SStr(self.c[len(self) - len(p):]).eq_term(p)))

    def find(self, sub, start=0):
        sub = SStr.of(sub)
        n = len(sub)
        for i in range(start, len(self) - n + 1):
            if SStr(self.c[i:i + n]) == sub:
                return i
        return -1

    def rfind(self, sub):
        sub = SStr.of(sub)
        n = len(sub)
        for i in range(len(self) - n, -1, -1):
            if SStr(self.c[i:i + n]) == sub:
                return i
        return -1

    def index(self, sub):
        r = self.find(sub)
        if r < 0:
            raise ValueError("substring not found")
        return r

    def count(self, sub):
        sub = SStr.of(sub)
        assert len(sub) == 1
        n = 0
        for x in self.c:
            if SStr([x]) == sub:
                n += 1
        return n

    def _in_set(self, x, cs):
        return bool(SBool(z3.Or([cpt(x) == k for k in cs] + [z3.BoolVal(False)])))

    _WS = [9, 10, 11, 12, 13, 28, 29, 30, 31, 32, 0x85, 0xa0, 0x1680] + list(range(0x2000, 0x200b)) + \
          [0x2028, 0x2029, 0x202f, 0x205f, 0x3000]

    def lstrip(self, chars=None):
        cs = self._WS if chars is None else [ord(ch) for ch in chars]
        i = 0
        while i < len(self.c) and self._in_set(self.c[i], cs):
            i += 1
        return SStr(self.c[i:])

    def rstrip(self, chars=None):
        cs = self._WS if chars is None else [ord(ch) for ch in chars]
        j = len(self.c)
        while j > 0 and self._in_set(self.c[j - 1], cs):
            j -= 1
        return SStr(self.c[:j])

    def strip(self, chars=None):
        return self.lstrip(chars).rstrip(chars)

    def removeprefix(self, p):
        if self.startswith(p):
            return SStr(self.c[len(p):])
        return self

    def replace(self, old, new, count=-1):
        old = SStr.of(old)
        new = SStr.of(new)
        if len(old) == 1 and len(new) == 1 and old.is_concrete() and new.is_concrete() and count < 0:
            # merged per-character ite map (no fork)
            out = []
            for x in self.c:
                out.append(_norm(z3.If(cpt(x) == old.c[0], bv(new.c[0]), cpt(x))))
            return SStr(out)
        out = []
        i = 0
        n = len(old)
        done = 0
        assert n >= 1
        while i < len(self.c):
            if (count < 0 or done < count) and i + n <= len(self.c) and SStr(self.c[i:i + n]) == old:
                out.extend(new.c)
                i += n
                done += 1
            else:
                out.append(self.c[i])
                i += 1
        return SStr(out)

    def split(self, sep=None, maxsplit=-1):
        assert sep is not None
        sep = SStr.of(sep)
        parts = []
        cur = []
        i = 0
        n = len(sep)
        while i < len(self.c):
            if (maxsplit < 0 or len(parts) < maxsplit) and i + n <= len(self.c) and SStr(self.c[i:i + n]) == sep:
                parts.append(SStr(cur))
                cur = []
                i += n
            else:
                cur.append(self.c[i])
                i += 1
        parts.append(SStr(cur))
        return parts

    def rsplit(self, sep, maxsplit=-1):
        sep = SStr.of(sep)
        assert len(sep) == 1
        parts = []
        end = len(self.c)
        i = len(self.c) - 1
        while i >= 0:
            if (maxsplit < 0 or len(parts) < maxsplit) and SStr([self.c[i]]) == sep:
                parts.append(SStr(self.c[i + 1:end]))
                end = i
            i -= 1
        parts.append(SStr(self.c[:end]))
        return parts[::-1]

    def rpartition(self, sep):
        i = self.rfind(sep)
        if i < 0:
            return (SStr([]), SStr([]), self)
        return (SStr(self.c[:i]), SStr.of(sep), SStr(self.c[i + len(sep):]))

    def partition(self, sep):
        i = self.find(sep)
        if i < 0:
            return (self, SStr([]), SStr([]))
        return (SStr(self.c[:i]), SStr.of(sep), SStr(self.c[i + len(sep):]))

    def join(self, items):
        out = SStr([])
        for i, x in enumerate(items):
            if i:
                out = out + self
            out = out + x
        return out

    def lower(self):
        # ASCII-only model, stated limitation: fork if a non-ASCII char is possible
        out = []
        for x in self.c:
            if isinstance(x, int):
                out.append(ord(chr(x).lower()) if len(chr(x).lower()) == 1 else x)
                continue
            if not bool(SBool(cpt(x) < 128)):
                raise Inconclusive("lower() on non-ASCII symbolic character")
            out.append(_norm(z3.If(z3.And(cpt(x) >= 65, cpt(x) <= 90), cpt(x) + 32, cpt(x))))
        return SStr(out)

    def upper(self):
        out = []
        for x in self.c:
            if isinstance(x, int):
                out.append(ord(chr(x).upper()) if len(chr(x).upper()) == 1 else x)
                continue
            if not bool(SBool(cpt(x) < 128)):
                raise Inconclusive("upper() on non-ASCII symbolic character")
            out.append(_norm(z3.If(z3.And(cpt(x) >= 97, cpt(x) <= 122), cpt(x) - 32, cpt(x))))
        return SStr(out)

    def isalpha(self):
        """only for characters known to be ASCII (str.isalpha of other characters needs the Unicode tables)"""
        if not self.c:
            return False
        conds = []
        for x in self.c:
            if isinstance(x, int):
                if not chr(x).isalpha():
                    return False
                continue
            if not bool(SBool(x.e < 128)):
                raise Inconclusive("str.isalpha on a symbolic non-ASCII character")
            conds.append(z3.Or(z3.And(x.e >= 65, x.e <= 90), z3.And(x.e >= 97, x.e <= 122)))
        return bool(SBool(z3.And(conds + [z3.BoolVal(True)])))

    def isdigit(self):
        if not self.c:
            return False
        return bool(SBool(z3.And([z3.And(cpt(x) >= 48, cpt(x) <= 57) for x in self.c])))

    def encode(self, enc='utf-8', errors='strict'):
        e = enc.lower().replace('-', '').replace('_', '')
        if e in ('ascii', 'latin1', 'utf8') and all(
                isinstance(x, SInt) and x.hi < 128 or isinstance(x, int) and x < 128 for x in self.c):
            return SBytes(self.c)
        if e == 'utf8':
            # one fork per encoded-length class of each symbolic character
            out = []
            for x in self.c:
                if isinstance(x, int):
                    out += list(chr(x).encode('utf-8', errors))
                    continue
                if bool(SBool(x.e < 0x80)):
                    out.append(x)
                elif bool(SBool(x.e < 0x800)):
                    out += [(x >> 6) | 0xC0, (x & 0x3F) | 0x80]
                elif bool(SBool(x.e < 0x10000)):
                    if bool(SBool(z3.And(x.e >= 0xD800, x.e <= 0xDFFF))):
                        if errors == 'strict':
                            raise UnicodeEncodeError('utf-8', '\ud800', 0, 1, 'surrogates not allowed')
                        raise Inconclusive("utf-8 encode of a surrogate with errors=%r" % errors)
                    out += [(x >> 12) | 0xE0, ((x >> 6) & 0x3F) | 0x80, (x & 0x3F) | 0x80]
                else:
                    out += [(x >> 18) | 0xF0, ((x >> 12) & 0x3F) | 0x80, ((x >> 6) & 0x3F) | 0x80, (x & 0x3F) | 0x80]
            return SBytes(out)
        if e in ('utf16le', 'utf16be'):
            # two bytes per BMP character, a surrogate pair above; lone surrogates need errors='surrogatepass'
            out = []
            for x in self.c:
                x = SInt.of(x)
                if bool(SBool(x.e < 0x10000)):
                    if errors != 'surrogatepass' and bool(SBool(z3.And(x.e >= 0xD800, x.e <= 0xDFFF))):
                        raise UnicodeEncodeError('utf-16', '\ud800', 0, 1, 'surrogates not allowed')
                    units = [x]
                else:
                    y = x - 0x10000
                    units = [(y >> 10) + 0xD800, (y & 0x3FF) + 0xDC00]
                for u in units:
                    lo, hi = u & 0xFF, (u >> 8) & 0xFF
                    out += [hi, lo] if e == 'utf16be' else [lo, hi]
            return SBytes(out)
        s = ''.join(chr(x if isinstance(x, int) else x.concretize()) for x in self.c)
        return s.encode(enc, errors)

    def concrete(self, model):
        return ''.join(chr(mval(model, x)) for x in self.c)

    def __format__(self, spec):
        raise Inconclusive("SStr passed to str.format on a non-constant template")

    def __str__(self):
        raise Inconclusive("str(SStr) would concretise")

    def __repr__(self):
        return 'SStr(%d)' % len(self.c)


def sbytes_decode(b, enc, errors):
    e = enc.lower().replace('-', '').replace('_', '')
    if all(isinstance(x, int) for x in b.items):
        return bytes(b.items).decode(enc, errors)
    if e == 'ascii':
        out = []
        for x in b.items:
            if isinstance(x, SInt):
                if not bool(SBool(x.e < 128)):
                    if errors == 'strict':
                        raise UnicodeDecodeError('ascii', b'\xff', 0, 1, 'ordinal not in range(128)')
                    raise Inconclusive("ascii decode errors=%s" % errors)
                out.append(SInt(x.e, 0, 127))
            else:
                if x >= 128:
                    raise UnicodeDecodeError('ascii', bytes([x]), 0, 1, 'ordinal not in range(128)')
                out.append(x)
        return SStr(out)
    if e == 'latin1':
        return SStr(b.items)
    if e == 'utf8' and errors == 'strict':
        return utf8_decode_strict(b)
    if e == 'utf8' and errors == 'replace':
        return utf8_decode_strict(b, replace=True)
    if e in ('utf16', 'utf16le', 'utf16be'):
        return utf16_decode(b, e, errors)
    raise Inconclusive("decode(%s, %s) of symbolic bytes" % (enc, errors))


def utf16_decode(b, e, errors):
    """CPython's UTF-16 decoders over symbolic bytes: 'utf-16' looks for a byte order mark first (FF FE: little endian,
    FE FF: big endian, both consumed; none: native = little endian), 'utf-16-le' / 'utf-16-be' take every unit as data.
    Lone surrogates are errors (only the error-free domain is modelled for errors != 'strict')."""
    from .engine import SInt as _S
    it = [_S.of(x) for x in b.items]
    big = e == 'utf16be'
    i = 0
    if e == 'utf16' and len(it) >= 2:
        u0 = it[0] | (it[1] << 8)
        if bool(SBool(u0.e == 0xFEFF)):
            i = 2
        elif bool(SBool(u0.e == 0xFFFE)):
            i = 2
            big = True

    def err():
        if errors == 'strict':
            return UnicodeDecodeError('utf-16', b'\xff\xff', 0, 2, 'illegal encoding')
        return Inconclusive("utf-16 decode with errors=%r reached an ill-formed sequence (outside the modelled domain)" % errors)

    def unit(k):
        return (it[k + 1] | (it[k] << 8)) if big else (it[k] | (it[k + 1] << 8))
    out = []
    n = len(it)
    while i < n:
        if i + 1 >= n:
            raise err()
        u = unit(i)
        i += 2
        if bool(SBool(z3.And(u.e >= 0xD800, u.e <= 0xDBFF))):
            if i + 1 >= n:
                if errors == 'surrogatepass':
                    out.append(u)
                    continue
                raise err()
            lo = unit(i)
            if not bool(SBool(z3.And(lo.e >= 0xDC00, lo.e <= 0xDFFF))):
                if errors != 'surrogatepass':
                    raise err()
                out.append(u)
                continue
            i += 2
            out.append(((u - 0xD800) << 10) + (lo - 0xDC00) + 0x10000)
        elif bool(SBool(z3.And(u.e >= 0xDC00, u.e <= 0xDFFF))):
            if errors != 'surrogatepass':
                raise err()
            out.append(u)
        else:
            out.append(u)
    return SStr([x if isinstance(x, int) else _norm(x.e) for x in out])


def utf8_decode_strict(b, replace=False):
    """CPython's UTF-8 decoder over symbolic bytes (shortest form only, no surrogates, <= U+10FFFF).  replace=True models
    errors='replace' approximately: every byte that cannot start or continue a sequence becomes one U+FFFD (CPython
    replaces maximal invalid subparts; the two agree on well-formed input, and replays run the real decoder)."""
    from .engine import SInt as _S
    it = [_S.of(x) for x in b.items]
    n = len(it)
    out = []
    i = 0

    class Bad(Exception):
        pass

    def cont(k):
        if k >= n or not bool(SBool(z3.And(it[k].e >= 0x80, it[k].e <= 0xBF))):
            raise Bad()
        return it[k] & 0x3F
    while i < n:
        c = it[i]
        try:
            if bool(SBool(c.e < 0x80)):
                out.append(b.items[i])
                i += 1
            elif bool(SBool(z3.And(c.e >= 0xC2, c.e <= 0xDF))):
                out.append(((c & 0x1F) << 6) | cont(i + 1))
                i += 2
            elif bool(SBool(z3.And(c.e >= 0xE0, c.e <= 0xEF))):
                c1 = cont(i + 1)
                c2 = cont(i + 2)
                v = ((c & 0x0F) << 12) | (c1 << 6) | c2
                if not bool(SBool(z3.And(v.e >= 0x800, z3.Not(z3.And(v.e >= 0xD800, v.e <= 0xDFFF))))):
                    raise Bad()
                out.append(v)
                i += 3
            elif bool(SBool(z3.And(c.e >= 0xF0, c.e <= 0xF4))):
                c1 = cont(i + 1)
                c2 = cont(i + 2)
                c3 = cont(i + 3)
                v = ((c & 0x07) << 18) | (c1 << 12) | (c2 << 6) | c3
                if not bool(SBool(z3.And(v.e >= 0x10000, v.e <= 0x10FFFF))):
                    raise Bad()
                out.append(v)
                i += 4
            else:
                raise Bad()
        except Bad:
            if not replace:
                raise UnicodeDecodeError('utf-8', b'\xff', 0, 1, 'invalid utf-8')
            out.append(0xFFFD)
            i += 1
    return SStr([x if isinstance(x, int) else _norm(x.e) for x in out])


def sstr_to_int(s, base=10):
    """int(SStr) for decimal digit strings (no sign / whitespace / underscore handling: those raise)"""
    from .engine import SInt as _S
    if base != 10:
        raise Inconclusive("int(SStr, base)")
    if len(s) == 0:
        raise ValueError("invalid literal for int() with base 10: ''")
    v = _S.of(0)
    cs = list(s.c)
    neg = False
    if len(cs) > 1 and bool(SBool(z3.Or(cpt(cs[0]) == 45, cpt(cs[0]) == 43))):
        neg = bool(SBool(cpt(cs[0]) == 45))
        cs = cs[1:]
    for x in cs:
        if not bool(SBool(z3.And(cpt(x) >= 48, cpt(x) <= 57))):
            # python also accepts other Unicode digits, '_' and surrounding whitespace: modelled as
            # ValueError only when the char is ASCII and not one of those; otherwise inconclusive
            if bool(SBool(z3.And(cpt(x) < 128, cpt(x) != 95, cpt(x) != 32,
                                 z3.Not(z3.And(cpt(x) >= 9, cpt(x) <= 13)),
                                 z3.Not(z3.And(cpt(x) >= 28, cpt(x) <= 31))))):
                raise ValueError("invalid literal for int() with base 10")
            raise Inconclusive("int(SStr) with space/underscore/non-ASCII digit")
        v = v * 10 + (SInt.of(x) - 48)
    return -v if neg else v


def sx_ord(c):
    if isinstance(c, SStr):
        if len(c) != 1:
            raise TypeError("ord() expected a character, but string of length %d found" % len(c))
        return c.c[0]
    return ord(c)


def sx_chr(i):
    if isinstance(i, SInt):
        if not (i >= 0) or not (i <= CPMAX):
            raise ValueError("chr() arg not in range(0x110000)")
        return SStr([i])
    return chr(i)


def sx_str(x='', *a):
    if isinstance(x, SStr):
        return x
    return str(x, *a)


def hexdigits(v, upper=False, width=0):
    """'%x' % v for symbolic v >= 0: forks on the digit count"""
    v = SInt.of(v)
    if not (v >= 0):
        raise Inconclusive("hex of negative symbolic")
    nd = 1
    while not (v < (1 << (4 * nd))):
        nd += 1
    nd = max(nd, width)
    out = []
    for k in range(nd - 1, -1, -1):
        d = (v >> (4 * k)) & 0xF
        base = ord('A') if upper else ord('a')
        e = z3.simplify(z3.If(d.e < 10, d.e + ord('0'), d.e - 10 + base))
        out.append(e.as_long() if z3.is_bv_value(e) else SInt(e, ord('0'), ord('f')))
    return SStr(out)


def sx_mod_str(tmpl, args):
    """printf-style formatting producing an SStr (templates with %s / %x / %X / %0Nx)"""
    import re
    if not isinstance(args, tuple):
        args = (args,)
    out = SStr([])
    ai = 0
    for m in re.finditer(r'%(0?)(\d*)([sxXd%])|[^%]+', tmpl):
        tok = m.group(0)
        if tok == '%%':
            out = out + '%'
        elif tok.startswith('%'):
            a = args[ai]
            ai += 1
            spec = m.group(3)
            width = int(m.group(2)) if m.group(2) else 0
            if spec == 's':
                out = out + (a if isinstance(a, SStr) else str(a))
            elif spec in 'xX' and isinstance(a, SInt):
                assert not width or m.group(1) == '0'
                out = out + hexdigits(a, spec == 'X', width)
            elif isinstance(a, (SInt, SStr)):
                raise Inconclusive("format %r of symbolic value into SStr" % tok)
            else:
                out = out + (tok % (a,))
        else:
            out = out + tok
    return out


def sx_format_sstr(tmpl, *args, **kw):
    """str.format with SStr arguments: plain {} / {0} / {name} fields without conversion or spec"""
    import string
    out = SStr([])
    auto = 0
    for lit, field, spec, conv in string.Formatter().parse(tmpl):
        out = out + lit
        if field is None:
            continue
        if field == '':
            a = args[auto]
            auto += 1
        elif field.isdigit():
            a = args[int(field)]
        elif field.isidentifier():
            a = kw[field]
        else:
            raise Inconclusive("format field %r not modelled" % field)
        if isinstance(a, SStr):
            if spec or conv:
                raise Inconclusive("format spec on SStr")
            out = out + a
        else:
            out = out + format(a if conv is None else (str(a) if conv == 's' else repr(a)), spec or '')
    return out


class SymDict:
    """dict wrapper whose lookups compare keys with == (forks) instead of hashing"""

    def __init__(self, d):
        self.d = d

    def get(self, k, default=None):
        if not isinstance(k, (SStr, SInt)):
            return self.d.get(k, default)
        for kk, v in self.d.items():
            if k == kk:
                return v
        return default

    def __contains__(self, k):
        return self.get(k, self) is not self

    def __getitem__(self, k):
        r = self.get(k, self)
        if r is self:
            raise KeyError(k)
        return r

    def __iter__(self):
        return iter(self.d)

    def __len__(self):
        return len(self.d)

    def items(self):
        return self.d.items()

    def keys(self):
        return self.d.keys()

    def values(self):
        return self.d.values()
