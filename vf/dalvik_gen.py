"""Generator, assembler and reference semantics for the int/long subset of Dalvik used by C21 (trusted base, written
from the Dalvik bytecode specification; shares no code with androguard).

A program is a list of instructions (mnemonic, operands...) with symbolic labels; `assemble` turns it into code units,
`run` executes the same list symbolically (z3 bit-vectors, branching through the engine)."""
import random
import z3

# ---------------------------------------------------------------- opcode table (Dalvik bytecode specification)
OPC = {'nop': 0x00, 'move': 0x01, 'move-wide': 0x04, 'return-void': 0x0e, 'return': 0x0f, 'return-wide': 0x10,
       'const/4': 0x12, 'const/16': 0x13, 'const': 0x14, 'const/high16': 0x15, 'const-wide/16': 0x16, 'const-wide/32': 0x17,
       'const-wide': 0x18, 'const-wide/high16': 0x19, 'goto': 0x28, 'goto/16': 0x29, 'packed-switch': 0x2b, 'sparse-switch': 0x2c,
       'cmp-long': 0x31, 'neg-int': 0x7b, 'not-int': 0x7c, 'neg-long': 0x7d, 'not-long': 0x7e, 'int-to-long': 0x81,
       'long-to-int': 0x84, 'int-to-byte': 0x8d, 'int-to-char': 0x8e, 'int-to-short': 0x8f}
for _i, _n in enumerate(['eq', 'ne', 'lt', 'ge', 'gt', 'le']):
    OPC['if-' + _n] = 0x32 + _i
    OPC['if-' + _n + 'z'] = 0x38 + _i
BINOPS = ['add', 'sub', 'mul', 'div', 'rem', 'and', 'or', 'xor', 'shl', 'shr', 'ushr']
for _i, _n in enumerate(BINOPS):
    OPC[_n + '-int'] = 0x90 + _i
    OPC[_n + '-long'] = 0x9b + _i
    OPC[_n + '-int/2addr'] = 0xb0 + _i
    OPC[_n + '-long/2addr'] = 0xbb + _i
    OPC[_n + '-int/lit8'] = 0xd8 + _i if _n != 'sub' else None
LIT16 = ['add', 'rsub', 'mul', 'div', 'rem', 'and', 'or', 'xor']
for _i, _n in enumerate(LIT16):
    OPC[_n + '-int/lit16'] = 0xd0 + _i
for _i, _n in enumerate(['add', 'rsub', 'mul', 'div', 'rem', 'and', 'or', 'xor', 'shl', 'shr', 'ushr']):
    OPC[_n + '-int/lit8'] = 0xd8 + _i
OPC = {k: v for k, v in OPC.items() if v is not None}


def fmt_of(name):
    if name in ('nop', 'return-void'):
        return '10x'
    if name in ('return', 'return-wide'):
        return '11x'
    if name == 'const/4':
        return '11n'
    if name in ('const/16', 'const-wide/16'):
        return '21s'
    if name in ('const', 'const-wide/32'):
        return '31i'
    if name == 'const-wide':
        return '51l'
    if name in ('const/high16', 'const-wide/high16'):
        return '21h'
    if name == 'goto':
        return '10t'
    if name == 'goto/16':
        return '20t'
    if name in ('packed-switch', 'sparse-switch'):
        return '31t'
    if name.startswith('if-') and name.endswith('z'):
        return '21t'
    if name.startswith('if-'):
        return '22t'
    if name.endswith('/lit8'):
        return '22b'
    if name.endswith('/lit16'):
        return '22s'
    if name.endswith('/2addr') or name in ('move', 'move-wide', 'neg-int', 'not-int', 'neg-long', 'not-long', 'int-to-long',
                                           'long-to-int', 'int-to-byte', 'int-to-char', 'int-to-short'):
        return '12x'
    return '23x'


UNITS = {'10x': 1, '11x': 1, '11n': 1, '12x': 1, '10t': 1, '20t': 2, '21s': 2, '21h': 2, '21t': 2, '22t': 2, '22b': 2, '22s': 2,
         '23x': 2, '31i': 3, '31t': 3, '51l': 5}


def layout(prog):
    """offsets (code units) of every instruction / label; payloads go after the code, 2-unit aligned"""
    off = []
    labels = {}
    u = 0
    for ins in prog:
        if ins[0] == 'label':
            labels[ins[1]] = u
            off.append(u)
            continue
        off.append(u)
        u += UNITS[fmt_of(ins[0])]
    pay = {}
    for k, ins in enumerate(prog):
        if ins[0] in ('packed-switch', 'sparse-switch'):
            if u % 2:
                u += 1
            pay[k] = u
            n = len(ins[2])
            u += (4 + 2 * n) if ins[0] == 'packed-switch' else (2 + 4 * n)
    return off, labels, pay, u


def assemble(prog):
    off, labels, pay, total = layout(prog)
    units = []

    def s16(v):
        return v & 0xffff
    for k, ins in enumerate(prog):
        name = ins[0]
        if name == 'label':
            continue
        f = fmt_of(name)
        op = OPC[name]
        here = off[k]
        if f == '10x':
            units += [op]
        elif f == '11x':
            units += [op | ins[1] << 8]
        elif f == '11n':
            units += [op | ins[1] << 8 | (ins[2] & 0xf) << 12]
        elif f == '12x':
            units += [op | ins[1] << 8 | ins[2] << 12]
        elif f in ('21s',):
            units += [op | ins[1] << 8, s16(ins[2])]
        elif f == '21h':
            units += [op | ins[1] << 8, s16(ins[2])]
        elif f == '31i':
            units += [op | ins[1] << 8, ins[2] & 0xffff, (ins[2] >> 16) & 0xffff]
        elif f == '51l':
            v = ins[2] & 0xffffffffffffffff
            units += [op | ins[1] << 8] + [(v >> (16 * i)) & 0xffff for i in range(4)]
        elif f == '10t':
            units += [op | ((labels[ins[1]] - here) & 0xff) << 8]
        elif f == '20t':
            units += [op, s16(labels[ins[1]] - here)]
        elif f == '21t':
            units += [op | ins[1] << 8, s16(labels[ins[2]] - here)]
        elif f == '22t':
            units += [op | ins[1] << 8 | ins[2] << 12, s16(labels[ins[3]] - here)]
        elif f == '22b':
            units += [op | ins[1] << 8, ins[2] | (ins[3] & 0xff) << 8]
        elif f == '22s':
            units += [op | ins[1] << 8 | ins[2] << 12, s16(ins[3])]
        elif f == '23x':
            units += [op | ins[1] << 8, ins[2] | ins[3] << 8]
        elif f == '31t':
            d = pay[k] - here
            units += [op | ins[1] << 8, d & 0xffff, (d >> 16) & 0xffff]
    for k, ins in enumerate(prog):
        if k in pay:
            while len(units) < pay[k]:
                units.append(0)
            cases = ins[2]
            here = off[k]
            if ins[0] == 'packed-switch':
                first = cases[0][0]
                units += [0x0100, len(cases), first & 0xffff, (first >> 16) & 0xffff]
                for _, lab in cases:
                    d = labels[lab] - here
                    units += [d & 0xffff, (d >> 16) & 0xffff]
            else:
                units += [0x0200, len(cases)]
                for key, _ in cases:
                    units += [key & 0xffff, (key >> 16) & 0xffff]
                for _, lab in cases:
                    d = labels[lab] - here
                    units += [d & 0xffff, (d >> 16) & 0xffff]
    assert len(units) == total, (len(units), total)
    return units


# ---------------------------------------------------------------- reference semantics
class DalvikThrow(Exception):
    pass


class Unwind(Exception):
    pass


def bv32(v):
    return z3.BitVecVal(v, 32)


def bv64(v):
    return z3.BitVecVal(v, 64)


I_BIN = {'add': lambda a, b: a + b, 'sub': lambda a, b: a - b, 'mul': lambda a, b: a * b, 'and': lambda a, b: a & b,
         'or': lambda a, b: a | b, 'xor': lambda a, b: a ^ b, 'shl': lambda a, b: a << (b & 31), 'shr': lambda a, b: a >> (b & 31),
         'ushr': lambda a, b: z3.LShR(a, b & 31), 'rsub': lambda a, b: b - a}
J_BIN = {'add': lambda a, b: a + b, 'sub': lambda a, b: a - b, 'mul': lambda a, b: a * b, 'and': lambda a, b: a & b,
         'or': lambda a, b: a | b, 'xor': lambda a, b: a ^ b}
CMP = {'eq': lambda a, b: a == b, 'ne': lambda a, b: a != b, 'lt': lambda a, b: a < b, 'ge': lambda a, b: a >= b,
       'gt': lambda a, b: a > b, 'le': lambda a, b: a <= b}


def run(engine, prog, regs, max_steps=300):
    """regs: dict register -> BV32 / BV64 (wide values live in the lower register of their pair)"""
    regs = dict(regs)
    index = {ins[1]: k for k, ins in enumerate(prog) if ins[0] == 'label'}
    k = 0
    steps = 0
    while True:
        steps += 1
        if steps > max_steps:
            raise Unwind()
        ins = prog[k]
        name = ins[0]
        nk = k + 1
        if name in ('label', 'nop'):
            pass
        elif name in ('const/4', 'const/16', 'const'):
            regs[ins[1]] = bv32(ins[2])
        elif name == 'const/high16':
            regs[ins[1]] = bv32((ins[2] & 0xffff) << 16)
        elif name in ('const-wide/16', 'const-wide/32', 'const-wide'):
            regs[ins[1]] = bv64(ins[2])
        elif name == 'const-wide/high16':
            regs[ins[1]] = bv64((ins[2] & 0xffff) << 48)
        elif name in ('move', 'move-wide'):
            regs[ins[1]] = regs[ins[2]]
        elif name in ('return', 'return-wide'):
            return regs[ins[1]]
        elif name == 'return-void':
            return None
        elif name in ('goto', 'goto/16'):
            nk = index[ins[1]]
        elif name.startswith('if-') and name.endswith('z'):
            if engine.branch(CMP[name[3:-1]](regs[ins[1]], bv32(0))):
                nk = index[ins[2]]
        elif name.startswith('if-'):
            if engine.branch(CMP[name[3:]](regs[ins[1]], regs[ins[2]])):
                nk = index[ins[3]]
        elif name == 'cmp-long':
            a, b = regs[ins[2]], regs[ins[3]]
            regs[ins[1]] = z3.If(a == b, bv32(0), z3.If(a > b, bv32(1), bv32(-1)))
        elif name == 'neg-int':
            regs[ins[1]] = -regs[ins[2]]
        elif name == 'not-int':
            regs[ins[1]] = ~regs[ins[2]]
        elif name == 'neg-long':
            regs[ins[1]] = -regs[ins[2]]
        elif name == 'not-long':
            regs[ins[1]] = ~regs[ins[2]]
        elif name == 'int-to-long':
            regs[ins[1]] = z3.SignExt(32, regs[ins[2]])
        elif name == 'long-to-int':
            regs[ins[1]] = z3.Extract(31, 0, regs[ins[2]])
        elif name == 'int-to-byte':
            regs[ins[1]] = z3.SignExt(24, z3.Extract(7, 0, regs[ins[2]]))
        elif name == 'int-to-short':
            regs[ins[1]] = z3.SignExt(16, z3.Extract(15, 0, regs[ins[2]]))
        elif name == 'int-to-char':
            regs[ins[1]] = z3.ZeroExt(16, z3.Extract(15, 0, regs[ins[2]]))
        elif name in ('packed-switch', 'sparse-switch'):
            v = regs[ins[1]]
            for key, lab in ins[2]:
                if engine.branch(v == bv32(key)):
                    nk = index[lab]
                    break
        else:
            base, _, form = name.partition('/')
            op, _, ty = base.rpartition('-')
            wide = ty == 'long'
            if form == '2addr':
                d, a, b = ins[1], regs[ins[1]], regs[ins[2]]
            elif form in ('lit8', 'lit16'):
                d, a, b = ins[1], regs[ins[2]], bv32(ins[3])
            else:
                d, a, b = ins[1], regs[ins[2]], regs[ins[3]]
            if op in ('div', 'rem'):
                if engine.branch(b == 0):
                    raise DalvikThrow('ArithmeticException')
                regs[d] = (a / b) if op == 'div' else z3.SRem(a, b)
            elif wide and op in ('shl', 'shr', 'ushr'):
                sh = z3.ZeroExt(32, b & 63)
                regs[d] = a << sh if op == 'shl' else (a >> sh if op == 'shr' else z3.LShR(a, sh))
            elif wide:
                regs[d] = J_BIN[op](a, b)
            else:
                regs[d] = I_BIN[op](a, b)
        k = nk


# ---------------------------------------------------------------- program generator
class Gen:
    """well-typed structured programs: int locals v0..v3, long locals v4/5, v6/7; parameters follow"""

    def __init__(self, rnd, params, features):
        self.rnd = rnd
        self.params = params                 # e.g. 'IIJ'
        self.f = features
        self.prog = []
        self.nlabel = 0
        self.ints = [0, 1, 2, 3]
        self.longs = [4, 6]
        self.nlocals = 9              # v8: scratch register for cmp-long results (dead after the branch, as compilers emit it)
        self.depth = 0
        self.in_loop = False

    def label(self):
        self.nlabel += 1
        return 'L%d' % self.nlabel

    def emit(self, *ins):
        self.prog.append(tuple(ins))

    def lit(self, bits):
        r = self.rnd
        return r.choice([0, 1, -1, 2, 7, -8, (1 << (bits - 1)) - 1, -(1 << (bits - 1)), r.randrange(-(1 << (bits - 1)), 1 << (bits - 1))])

    def header(self):
        # copy / convert the parameters into the locals, fill the rest with constants
        preg = self.nlocals
        pi, pj = [], []
        for t in self.params:
            (pi if t == 'I' else pj).append(preg)
            preg += 1 if t == 'I' else 2
        self.nregs = preg
        for k, v in enumerate(self.ints):
            if k < len(pi) and pi[k] < 16:
                self.emit('move', v, pi[k])
            elif pj and self.rnd.random() < 0.5 and pj[0] < 16:
                self.emit('long-to-int', v, pj[0])
            else:
                self.const_int(v)
        for k, v in enumerate(self.longs):
            if k < len(pj) and pj[k] < 16:
                self.emit('move-wide', v, pj[k])
            elif pi and pi[0] < 16:
                self.emit('int-to-long', v, pi[0])
            else:
                self.const_long(v)
        # the parameter registers themselves are ordinary variables of the method body (compilers assign to parameters)
        self.ints = self.ints + [r for r in pi if r < 16]
        self.longs = self.longs + [r for r in pj if r < 15]

    def const_int(self, v):
        r = self.rnd.random()
        if r < 0.3:
            self.emit('const/4', v, self.rnd.randrange(-8, 8))
        elif r < 0.6:
            self.emit('const/16', v, self.lit(16))
        elif r < 0.8:
            self.emit('const', v, self.lit(32))
        else:
            self.emit('const/high16', v, self.rnd.randrange(0, 1 << 16))

    def const_long(self, v):
        r = self.rnd.random()
        if r < 0.4:
            self.emit('const-wide/16', v, self.lit(16))
        elif r < 0.6:
            self.emit('const-wide/32', v, self.lit(32))
        elif r < 0.8:
            self.emit('const-wide', v, self.lit(64))
        else:
            self.emit('const-wide/high16', v, self.rnd.randrange(0, 1 << 16))

    def arith(self):
        r = self.rnd
        kind = r.choice(self.f['arith'])
        I, J = self.ints, self.longs
        ops = [o for o in BINOPS if 'div' in self.f['ops'] or o not in ('div', 'rem')]
        if kind == 'int3':
            self.emit(r.choice(ops) + '-int', r.choice(I), r.choice(I), r.choice(I))
        elif kind == 'int2addr':
            self.emit(r.choice(ops) + '-int/2addr', r.choice(I), r.choice(I))
        elif kind == 'lit8':
            op = r.choice([o for o in ['add', 'rsub', 'mul', 'div', 'rem', 'and', 'or', 'xor', 'shl', 'shr', 'ushr'] if 'div' in self.f['ops'] or o not in ('div', 'rem')])
            self.emit(op + '-int/lit8', r.choice(I), r.choice(I), self.lit(8))
        elif kind == 'lit16':
            op = r.choice([o for o in LIT16 if 'div' in self.f['ops'] or o not in ('div', 'rem')])
            self.emit(op + '-int/lit16', r.choice(I), r.choice(I), self.lit(16))
        elif kind == 'long3':
            op = r.choice(ops)
            if op in ('shl', 'shr', 'ushr'):
                self.emit(op + '-long', r.choice(J), r.choice(J), r.choice(I))
            else:
                self.emit(op + '-long', r.choice(J), r.choice(J), r.choice(J))
        elif kind == 'long2addr':
            op = r.choice(ops)
            if op in ('shl', 'shr', 'ushr'):
                self.emit(op + '-long/2addr', r.choice(J), r.choice(I))
            else:
                self.emit(op + '-long/2addr', r.choice(J), r.choice(J))
        elif kind == 'unary':
            n = r.choice(['neg-int', 'not-int', 'neg-long', 'not-long'])
            if n.endswith('int'):
                self.emit(n, r.choice(I), r.choice(I))
            else:
                self.emit(n, r.choice(J), r.choice(J))
        elif kind == 'cast':
            n = r.choice(['int-to-long', 'long-to-int', 'int-to-byte', 'int-to-short', 'int-to-char'])
            if n == 'int-to-long':
                self.emit(n, r.choice(J), r.choice(I))
            elif n == 'long-to-int':
                self.emit(n, r.choice(I), r.choice(J))
            else:
                self.emit(n, r.choice(I), r.choice(I))
        elif kind == 'const':
            if r.random() < 0.5:
                self.const_int(r.choice(I))
            else:
                self.const_long(r.choice(J))
        elif kind == 'move':
            if r.random() < 0.5:
                self.emit('move', r.choice(I), r.choice(I))
            else:
                self.emit('move-wide', r.choice(J), r.choice(J))
        elif kind == 'cmp':
            self.emit('cmp-long', r.choice(I), r.choice(J), r.choice(J))

    def cond_jump(self, target):
        """emit a conditional branch to `target` (taken when the printed condition is false is the decompiler's business)"""
        r = self.rnd
        c = r.choice(['eq', 'ne', 'lt', 'ge', 'gt', 'le'])
        k = r.random()
        if k < 0.45:
            self.emit('if-' + c + 'z', r.choice(self.ints), target)
        elif k < 0.8 or 'long' not in self.f['cond']:
            self.emit('if-' + c, r.choice(self.ints), r.choice(self.ints), target)
        else:
            t = 8
            self.emit('cmp-long', t, r.choice(self.longs), r.choice(self.longs))
            self.emit('if-' + c + 'z', t, target)

    def block(self, n):
        for _ in range(n):
            self.stmt()

    def stmt(self):
        r = self.rnd
        choices = ['arith'] * 5
        if self.depth < 2:
            # loops are not nested (they share the counter register v3); inside a loop only ifs
            choices += [c for c in self.f['control'] if not (self.in_loop and c in ('loop', 'while', 'switch', 'switch2'))]
        k = r.choice(choices)
        if k == 'arith':
            self.arith()
        elif k == 'if':
            els, end = self.label(), self.label()
            self.cond_jump(els)
            self.depth += 1
            self.block(r.randrange(1, 3))
            if r.random() < 0.6:
                self.emit('goto/16', end)
                self.emit('label', els)
                self.block(r.randrange(1, 3))
                self.emit('label', end)
            else:
                self.emit('label', els)
            self.depth -= 1
        elif k == 'and_or':
            # if (c1 && c2) / (c1 || c2) shapes as compilers emit them
            els, then, end = self.label(), self.label(), self.label()
            if r.random() < 0.5:
                self.cond_jump(els)
                self.cond_jump(els)
            else:
                self.cond_jump(then)
                self.cond_jump(els)
                self.emit('label', then)
            self.depth += 1
            self.block(r.randrange(1, 3))
            self.emit('goto/16', end)
            self.emit('label', els)
            self.block(r.randrange(1, 3))
            self.emit('label', end)
            self.depth -= 1
        elif k == 'loop':
            # counted loop on v3: v3 = (v3 & 3); do { body; v3 += -1 } while (v3 > 0)   (body must not write v3)
            head = self.label()
            saved = self.ints
            self.emit('and-int/lit8', 3, 3, 3)
            self.ints = [r for r in saved if r != 3]
            self.emit('label', head)
            self.depth += 1
            self.in_loop = True
            self.block(r.randrange(1, 3))
            self.in_loop = False
            self.depth -= 1
            self.ints = saved
            self.emit('add-int/lit8', 3, 3, -1)
            self.emit('if-gtz', 3, head)
        elif k == 'while':
            # while (v3 < v2') with v2' = v2 & 3: v3 = 0; loop: if-ge v3, t -> end; body; v3++; goto loop
            head, end = self.label(), self.label()
            saved = self.ints
            self.emit('and-int/lit8', 2, 2, 3)
            self.emit('const/4', 3, 0)
            self.ints = [r for r in saved if r not in (2, 3)]
            self.emit('label', head)
            self.emit('if-ge', 3, 2, end)
            self.depth += 1
            self.in_loop = True
            self.block(r.randrange(1, 3))
            self.in_loop = False
            self.depth -= 1
            self.ints = saved
            self.emit('add-int/lit8', 3, 3, 1)
            self.emit('goto/16', head)
            self.emit('label', end)
        elif k in ('switch', 'switch2'):
            n = r.randrange(2, 4) if k == 'switch' else r.randrange(3, 5)
            labs = [self.label() for _ in range(n)]
            end = self.label()
            packed = r.random() < 0.5
            first = r.choice([0, 1, -1, 10])
            keys = [first + i for i in range(n)] if packed else sorted(r.sample(range(-20, 40), n))
            targets = list(labs)
            if k == 'switch2':                  # two keys share one block (case 1: case 2: ...)
                targets[1] = targets[0]
            self.emit('packed-switch' if packed else 'sparse-switch', r.choice(self.ints), list(zip(keys, targets)))
            self.depth += 1
            self.block(1)                       # default
            self.emit('goto/16', end)
            for lab in labs:
                if lab not in targets:
                    continue
                self.emit('label', lab)
                self.block(1)
                self.emit('goto/16', end)
            self.depth -= 1
            self.emit('label', end)

    def finish(self, ret):
        if ret == 'I':
            self.emit('return', self.rnd.choice(self.ints))
        else:
            self.emit('return-wide', self.rnd.choice(self.longs))


FEATURES = {
    'straight-int': dict(arith=['int3', 'int2addr', 'lit8', 'lit16', 'unary', 'const', 'move'], ops=['div'], control=[], cond=[]),
    'straight-long': dict(arith=['long3', 'long2addr', 'unary', 'cast', 'const', 'move', 'int3'], ops=['div'], control=[], cond=[]),
    'casts': dict(arith=['cast', 'cast', 'int3', 'long3', 'lit8'], ops=[], control=[], cond=[]),
    'ifs': dict(arith=['int3', 'lit8', 'long3', 'cast', 'const'], ops=[], control=['if', 'if', 'and_or'], cond=['long']),
    'loops': dict(arith=['int3', 'lit8', 'int2addr', 'long2addr'], ops=[], control=['loop', 'while', 'if'], cond=[]),
    'switches': dict(arith=['int3', 'lit8', 'const'], ops=[], control=['switch', 'if'], cond=[]),
    'shared-switch': dict(arith=['int3', 'lit8', 'const'], ops=[], control=['switch2', 'switch2', 'if'], cond=[]),
    'mixed': dict(arith=['int3', 'int2addr', 'lit8', 'lit16', 'long3', 'long2addr', 'unary', 'cast', 'const', 'move'], ops=['div'],
                  control=['if', 'and_or', 'loop', 'while', 'switch'], cond=['long']),
}


def opcode_programs():
    """one tiny program per opcode form and literal class: result = op(arguments) returned directly"""
    out = []

    def add(params, ret, *body):
        n = 9
        nregs = n + sum(1 if t == 'I' else 2 for t in params)
        out.append(dict(prog=list(body), params=params, ret=ret, nregs=nregs, nlocals=n, flavour='opcodes', seed=len(out)))
    P0, P1 = 9, 10          # II
    Q0, Q1 = 9, 11          # JJ (and J, I = 9, 11)
    for op in BINOPS:
        add('II', 'I', (op + '-int', 0, P0, P1), ('return', 0))
        add('II', 'I', (op + '-int/2addr', P0, P1), ('return', P0))
        if op in ('shl', 'shr', 'ushr'):
            add('JI', 'J', (op + '-long', 4, Q0, Q1), ('return-wide', 4))
            add('JI', 'J', (op + '-long/2addr', Q0, Q1), ('return-wide', Q0))
        else:
            add('JJ', 'J', (op + '-long', 4, Q0, Q1), ('return-wide', 4))
            add('JJ', 'J', (op + '-long/2addr', Q0, Q1), ('return-wide', Q0))
    for op in ['add', 'rsub', 'mul', 'div', 'rem', 'and', 'or', 'xor', 'shl', 'shr', 'ushr']:
        for lit in (-128, -1, 1, 31, 127):
            add('I', 'I', (op + '-int/lit8', 0, P0, lit), ('return', 0))
    for op in LIT16:
        for lit in (-32768, -256, -1, 1, 255, 32767):
            add('I', 'I', (op + '-int/lit16', 0, P0, lit), ('return', 0))
    for n in ('neg-int', 'not-int', 'int-to-byte', 'int-to-short', 'int-to-char'):
        add('I', 'I', (n, 0, P0), ('return', 0))
    for n in ('neg-long', 'not-long'):
        add('J', 'J', (n, 4, Q0), ('return-wide', 4))
    add('I', 'J', ('int-to-long', 4, P0), ('return-wide', 4))
    add('J', 'I', ('long-to-int', 0, Q0), ('return', 0))
    for c in ('const/4', 'const/16', 'const', 'const/high16'):
        for v in {'const/4': (-8, 7), 'const/16': (-32768, 32767), 'const': (-2147483648, 2147483647), 'const/high16': (0x8000, 0x7fff)}[c]:
            add('I', 'I', (c, 0, v), ('add-int/2addr', 0, P0), ('return', 0))
    for c in ('const-wide/16', 'const-wide/32', 'const-wide', 'const-wide/high16'):
        for v in {'const-wide/16': (-32768, 32767), 'const-wide/32': (-2147483648, 2147483647),
                  'const-wide': (-9223372036854775808, 9223372036854775807), 'const-wide/high16': (0x8000, 0x7fff)}[c]:
            add('J', 'J', (c, 4, v), ('xor-long/2addr', 4, Q0), ('return-wide', 4))
    for c in ('eq', 'ne', 'lt', 'ge', 'gt', 'le'):
        add('II', 'I', ('if-' + c, P0, P1, 'T'), ('const/4', 0, 0), ('return', 0), ('label', 'T'), ('const/4', 0, 1), ('return', 0))
        add('I', 'I', ('if-' + c + 'z', P0, 'T'), ('const/4', 0, 0), ('return', 0), ('label', 'T'), ('const/4', 0, 1), ('return', 0))
        add('JJ', 'I', ('cmp-long', 8, Q0, Q1), ('if-' + c + 'z', 8, 'T'), ('const/4', 0, 0), ('return', 0), ('label', 'T'), ('const/4', 0, 1), ('return', 0))
    return out


def gen_program(seed, flavour):
    if flavour == 'opcodes':
        return opcode_programs()[seed % 100003]
    rnd = random.Random(seed)
    params = rnd.choice(['II', 'IJ', 'I', 'J', 'III', 'JI'])
    ret = rnd.choice(['I', 'I', 'J'])
    g = Gen(rnd, params, FEATURES[flavour])
    g.header()
    g.block(rnd.randrange(3, 8))
    g.finish(ret)
    return dict(prog=g.prog, params=params, ret=ret, nregs=g.nregs, nlocals=g.nlocals, flavour=flavour, seed=seed)
