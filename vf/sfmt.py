"""format markers + SFloat (DESIGN.md 2.2).

A formatted symbolic number is a real `str` holding a private-use marker; a side table maps
the marker number to (z3 term, format spec, kind).  Strings built from markers can be compared
structurally: two renderings are equal iff literal parts are equal and marker terms are equal
under the same spec (exact for the injective integer specs, sound only for %f -> replay decides).
"""
import re
import z3
from .engine import SInt, SBool, bv, W, Inconclusive

REG = {}
OPEN, CLOSE = '\ue000', '\ue001'


def marker(term, spec, kind):
    k = len(REG)
    REG[k] = (term, spec, kind)
    return '%s%d%s' % (OPEN, k, CLOSE)


def has_marker(s):
    return isinstance(s, str) and OPEN in s


def parse_markers(s):
    """split a real str into [('lit', text) | ('sym', term, spec, kind)]"""
    out = []
    i = 0
    while i < len(s):
        j = s.find(OPEN, i)
        if j < 0:
            out.append(('lit', s[i:]))
            break
        if j > i:
            out.append(('lit', s[i:j]))
        e = s.index(CLOSE, j)
        out.append(('sym',) + REG[int(s[j + 1:e])])
        i = e + 1
    return out


def render(s, model):
    """concrete text of a marker string under a model"""
    out = ''
    for p in parse_markers(s):
        if p[0] == 'lit':
            out += p[1]
            continue
        _, term, spec, kind = p
        v = model.eval(term, model_completion=True)
        if kind == 'int':
            x = v.as_signed_long()
        else:
            x = fp_to_py(v)
        if spec.startswith('%'):
            out += spec % x
        else:
            out += format(x, spec)
    return out


def fp_to_py(v):
    import struct
    if z3.is_fp(v) and not z3.is_fp_value(v):
        v = z3.simplify(v)
    bits = z3.simplify(z3.fpToIEEEBV(v))
    return struct.unpack('<d', struct.pack('<Q', bits.as_long()))[0]


RNE = z3.RNE()
D = z3.Float64()
F32 = z3.Float32()


class SFloat:
    def __init__(self, e):
        self.e = e

    def __round__(self, n=None):
        from .engine import Inconclusive
        raise Inconclusive("round() of a symbolic float (decimal rounding is not modelled)")

    @staticmethod
    def of(x):
        if isinstance(x, SFloat):
            return x
        if isinstance(x, float):
            return SFloat(z3.FPVal(x, D))
        if isinstance(x, bool):
            x = int(x)
        if isinstance(x, int):
            f = float(x)
            if int(f) != x:
                raise Inconclusive("int constant not exactly representable")
            return SFloat(z3.FPVal(f, D))
        if isinstance(x, SInt):
            n = max(x.lo.bit_length(), x.hi.bit_length()) + 1
            return SFloat(z3.fpSignedToFP(RNE, z3.Extract(n - 1, 0, x.e), D))
        raise TypeError(type(x))

    def __mul__(self, o):
        return SFloat(z3.fpMul(RNE, self.e, SFloat.of(o).e))
    __rmul__ = __mul__

    def __truediv__(self, o):
        return SFloat(z3.fpDiv(RNE, self.e, SFloat.of(o).e))

    def __rtruediv__(self, o):
        return SFloat(z3.fpDiv(RNE, SFloat.of(o).e, self.e))

    def __add__(self, o):
        return SFloat(z3.fpAdd(RNE, self.e, SFloat.of(o).e))
    __radd__ = __add__

    def __sub__(self, o):
        return SFloat(z3.fpSub(RNE, self.e, SFloat.of(o).e))

    def __neg__(self):
        return SFloat(z3.fpNeg(self.e))

    def __format__(self, spec):
        return marker(self.e, spec, 'float')

    def __str__(self):
        return marker(self.e, '', 'float')

    def __lt__(self, o): return SBool(z3.fpLT(self.e, SFloat.of(o).e))
    def __le__(self, o): return SBool(z3.fpLEQ(self.e, SFloat.of(o).e))
    def __gt__(self, o): return SBool(z3.fpGT(self.e, SFloat.of(o).e))
    def __ge__(self, o): return SBool(z3.fpGEQ(self.e, SFloat.of(o).e))


def sx_float(x):
    if isinstance(x, (SInt, SFloat)):
        return SFloat.of(x)
    return float(x)


_TOK = re.compile(r'%(?:[-+0 #]*\d*(?:\.\d+)?[diouxXeEfFgGcrsa%])|[^%]+')


def fmt_percent(tmpl, args):
    """`tmpl % args` with SInt / SFloat arguments -> marker string"""
    if not isinstance(args, tuple):
        args = (args,)
    out = ''
    ai = 0
    for m in _TOK.finditer(tmpl):
        tok = m.group(0)
        if tok.startswith('%') and tok != '%%':
            a = args[ai]
            ai += 1
            if isinstance(a, SInt):
                out += marker(a.e, tok, 'int')
            elif isinstance(a, SFloat):
                out += marker(a.e, tok, 'float')
            else:
                out += tok % (a,)
        else:
            out += tok.replace('%%', '%')
    if ai != len(args):
        raise TypeError("not all arguments converted during string formatting")
    return out
