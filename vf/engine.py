"""symx - small dynamic symbolic executor used by every check (DESIGN.md section 2).

The code under test is the *real* androguard source (loaded by vf.hook); values of the
classes below flow through it.  Every non-constant branch asks the Engine, which decides
feasibility with z3 and explores both sides by re-execution (DFS over decision prefixes).
"""
import struct as _struct
import time
import z3

W = 128
PATH_START = []           # callbacks run at the start of every explored path (per-path state of stubs)


class Abort(BaseException):
    """current path is infeasible / pruned (BaseException so repo `except Exception` cannot eat it)"""


class Inconclusive(BaseException):
    """bound / budget / solver-unknown: the check must not report success"""


class Stats:
    FIELDS = ('paths', 'forks', 'concretisations', 'decisions', 'queries', 'unsat', 'sat', 'unknown', 'solver_s',
              'obligations', 'discharged')

    def __init__(self):
        for f in self.FIELDS:
            setattr(self, f, 0)

    def add(self, o):
        for f in self.FIELDS:
            setattr(self, f, getattr(self, f) + (o[f] if isinstance(o, dict) else getattr(o, f)))

    def as_dict(self):
        return {f: (round(getattr(self, f), 3) if f == 'solver_s' else getattr(self, f)) for f in self.FIELDS}


SOLVER_TIMEOUT_MS = 120000


class Engine:
    def __init__(self, pre=(), max_paths=200000, stats=None):
        self.s = z3.Solver()
        self.s.set('timeout', SOLVER_TIMEOUT_MS)
        self.pre = list(pre)
        for c in self.pre:
            self.s.add(c)
        self.levels = 0            # number of pushes == number of recorded decisions asserted
        self.decisions = []        # decisions of current path
        self.conds = []            # cond per recorded decision (as asserted)
        self.prefix = []
        self.work = []
        self.model = None
        self.st = stats if stats is not None else Stats()
        self.npaths = 0
        self.max_paths = max_paths
        self.free_bools_init = set()
        self.free_bools = set()
        self.all_pcs = []          # for the partition guard
        self.stop_fn = None        # exploration may stop early once enough counterexamples are in hand
        self.stopped = False

    # --- solver helpers
    def _check(self, *assump):
        t = time.time()
        r = self.s.check(*assump)
        self.st.queries += 1
        self.st.solver_s += time.time() - t
        if r == z3.unknown:
            self.st.unknown += 1
            raise Inconclusive("solver unknown: %s" % self.s.reason_unknown())
        if r == z3.sat:
            self.st.sat += 1
            self.model = self.s.model()
        else:
            self.st.unsat += 1
        return r == z3.sat

    def pc(self):
        return self.pre + self.conds

    def _assert(self, c):
        self.s.push()
        self.s.add(c)
        self.levels += 1

    def branch(self, cond):
        cond = z3.simplify(cond)
        if z3.is_true(cond):
            return True
        if z3.is_false(cond):
            return False
        i = len(self.decisions)
        is_free = z3.is_const(cond) and cond.decl().kind() == z3.Z3_OP_UNINTERPRETED
        if i >= len(self.prefix) and is_free and cond.decl().name() in self.free_bools:
            # a boolean input that no constraint mentions yet: both sides feasible, no query needed
            self.free_bools.discard(cond.decl().name())
            self.work.append(self.decisions + [False])
            self.st.forks += 1
            self._assert(cond)
            self.decisions.append(True)
            self.conds.append(cond)
            self.model = None
            return True
        if is_free:
            self.free_bools.discard(cond.decl().name())
        if i < len(self.prefix):
            d = self.prefix[i]
            if not isinstance(d, bool):
                raise Inconclusive("replay misalignment (bool expected, got %r)" % (d,))
            c = cond if d else z3.Not(cond)
            if i >= self.levels:            # not yet asserted in solver
                self._assert(c)
                self.model = None
            self.decisions.append(d)
            self.conds.append(c)
            return d
        # new branch: use cached model to decide one side for free
        side = None
        if self.model is not None:
            v = self.model.eval(cond, model_completion=True)
            if z3.is_true(v):
                side = True
            elif z3.is_false(v):
                side = False
        if side is None:
            if not self._check():
                raise Abort()
            v = self.model.eval(cond, model_completion=True)
            side = bool(z3.is_true(v))
        keep = self.model
        other = z3.Not(cond) if side else cond
        other_sat = self._check(other)
        self.model = keep
        if other_sat:
            self.work.append(self.decisions + [not side])
            self.st.forks += 1
        # forced branches are recorded too, so that replay consumes one entry per
        # non-constant condition (index alignment between runs)
        c = cond if side else z3.Not(cond)
        self._assert(c)
        self.decisions.append(side)
        self.conds.append(c)
        return side

    def assume(self, cond):
        """constrain the current path (used by harnesses for late preconditions)"""
        if not self.branch(cond):
            raise Abort()

    def concretize(self, e, cap=4096):
        """k-ary fork over every feasible value of bit-vector term e (recorded by value)."""
        e = z3.simplify(e)
        if z3.is_bv_value(e):
            return e.as_signed_long()
        i = len(self.decisions)
        if i < len(self.prefix):
            d = self.prefix[i]
            if not (isinstance(d, tuple) and d[0] == 'c'):
                raise Inconclusive("replay misalignment (value expected, got %r)" % (d,))
            v = d[1]
            c = (e == v)
            if i >= self.levels:
                self._assert(c)
                self.model = None
            self.decisions.append(('c', v))
            self.conds.append(c)
            return v
        vals = []
        self.st.concretisations += 1
        self.s.push()
        while True:
            if not self._check():
                break
            v = self.model.eval(e, model_completion=True).as_signed_long()
            vals.append(v)
            if len(vals) > cap:
                self.s.pop()
                raise Inconclusive("concretisation cap (%d values) at %s" % (cap, str(e)[:80]))
            self.s.add(e != v)
        self.s.pop()
        self.model = None
        if not vals:
            raise Abort()
        vals.sort()
        for v in vals[1:]:
            self.work.append(self.decisions + [('c', v)])
            self.st.forks += 1
        v = vals[0]
        c = (e == v)
        self._assert(c)
        self.decisions.append(('c', v))
        self.conds.append(c)
        return v

    def choose(self, n, name='choice'):
        """fork over range(n) without solver queries (pure enumeration of an uninterpreted choice)"""
        i = len(self.decisions)
        if i < len(self.prefix):
            d = self.prefix[i]
            if not (isinstance(d, tuple) and d[0] == 'k'):
                raise Inconclusive("replay misalignment (choice expected)")
            self.decisions.append(d)
            self.conds.append(z3.BoolVal(True))
            if i >= self.levels:
                self._assert(z3.BoolVal(True))
            return d[1]
        if n <= 0:
            raise Abort()
        for v in range(1, n):
            self.work.append(self.decisions + [('k', v)])
            self.st.forks += 1
        self.decisions.append(('k', 0))
        self.conds.append(z3.BoolVal(True))
        self._assert(z3.BoolVal(True))
        return 0

    def explore(self, fn, keep_pcs=False):
        """yield (pc, (kind, value)) for every feasible path of fn(); kind in {'ok','exc'}"""
        self.work = [[]]
        while self.work:
            if self.stop_fn is not None and self.stop_fn():
                self.stopped = True        # only ever used to report violations sooner, never to claim success
                return
            self.prefix = self.work.pop()
            keep = max(len(self.prefix) - 1, 0)
            keep = min(keep, self.levels)
            while self.levels > keep:
                self.s.pop()
                self.levels -= 1
            if self.decisions[:keep] != self.prefix[:keep]:
                while self.levels > 0:
                    self.s.pop()
                    self.levels -= 1
            self.decisions = []
            self.conds = []
            self.model = None
            self.free_bools = set(self.free_bools_init)
            self.npaths += 1
            for cb in PATH_START:
                cb()
            if self.npaths > self.max_paths:
                raise Inconclusive("path budget (%d)" % self.max_paths)
            try:
                res = ('ok', fn())
            except Abort:
                continue
            except Inconclusive:
                raise
            except RecursionError as e:
                res = ('exc', e)
            except Exception as e:  # noqa
                res = ('exc', e)
            self.st.paths += 1
            self.st.decisions += len(self.decisions)
            pc = list(self.pc())
            if keep_pcs:
                self.all_pcs.append(z3.And(self.conds) if self.conds else z3.BoolVal(True))
            yield pc, res

    def partition_guard(self):
        """the explored path conditions must cover the precondition (needs explore(keep_pcs=True))"""
        if self.stopped:
            return
        s = z3.Solver()
        s.set('timeout', SOLVER_TIMEOUT_MS)
        s.add(*self.pre)
        s.add(z3.Not(z3.Or(self.all_pcs + [z3.BoolVal(False)])))
        r = s.check()
        self.st.queries += 1
        if r != z3.unsat:
            raise Inconclusive("path conditions do not cover the precondition (%s): engine bug" % r)

    # --- obligations
    def solve(self, pc, extra=()):
        """fresh-solver query; returns model or None (unsat); raises on unknown"""
        s = z3.Solver()
        s.set('timeout', SOLVER_TIMEOUT_MS)
        s.add(*pc)
        for x in extra:
            s.add(x)
        t = time.time()
        r = s.check()
        self.st.queries += 1
        self.st.solver_s += time.time() - t
        if r == z3.unsat:
            self.st.unsat += 1
            return None
        if r == z3.unknown:
            self.st.unknown += 1
            raise Inconclusive("solver unknown: %s" % s.reason_unknown())
        self.st.sat += 1
        return s.model()

    def prove(self, pc, ob):
        """None if pc => ob, else a model of pc and not ob.  pc is re-checked sat from scratch."""
        if getattr(self, '_pc_ok', None) is not pc:
            if self.solve(pc) is None:
                raise Inconclusive("path condition not sat: engine bug")
            self._pc_ok = pc
        self.st.obligations += 1
        m = self.solve(pc, [z3.Not(ob)])
        if m is None:
            self.st.discharged += 1
        return m


class _ConcreteOnly:
    """used outside an exploration (differential validation runs): only constant conditions are allowed"""

    def branch(self, cond):
        c = z3.simplify(cond)
        if z3.is_true(c):
            return True
        if z3.is_false(c):
            return False
        raise Inconclusive("symbolic branch outside an exploration")

    def concretize(self, e, cap=0):
        e = z3.simplify(e)
        if z3.is_bv_value(e):
            return e.as_signed_long()
        raise Inconclusive("symbolic value outside an exploration")

    def choose(self, n, name=''):
        raise Inconclusive("choice outside an exploration")

    free_bools = set()


ENGINE = _ConcreteOnly()


def set_engine(e):
    global ENGINE
    ENGINE = e
    return e


def engine():
    return ENGINE


def bv(x):
    if isinstance(x, SInt):
        return x.e
    if isinstance(x, bool):
        x = int(x)
    if isinstance(x, int):
        if not (-(1 << (W - 1)) <= x < (1 << (W - 1))):
            raise Inconclusive("width")
        return z3.BitVecVal(x, W)
    raise TypeError(type(x))


class SBool:
    __slots__ = ('e',)

    def __init__(self, e):
        self.e = e

    def __bool__(self):
        return ENGINE.branch(self.e)

    def __invert__(self):
        return SBool(z3.Not(self.e))


def _rng(lo, hi):
    if lo < -(1 << (W - 2)) or hi >= (1 << (W - 2)):
        raise Inconclusive("width")
    return lo, hi


class SInt:
    __slots__ = ('e', 'lo', 'hi')

    def __init__(self, e, lo, hi):
        self.e = e
        self.lo, self.hi = _rng(lo, hi)

    @staticmethod
    def of(x):
        if isinstance(x, SInt):
            return x
        if isinstance(x, (int, bool)):
            x = int(x)
            return SInt(z3.BitVecVal(x, W), x, x)
        return NotImplemented

    def __add__(self, o):
        o = SInt.of(o)
        if o is NotImplemented: return o
        return SInt(self.e + o.e, self.lo + o.lo, self.hi + o.hi)
    __radd__ = __add__

    def __sub__(self, o):
        o = SInt.of(o)
        if o is NotImplemented: return o
        return SInt(self.e - o.e, self.lo - o.hi, self.hi - o.lo)

    def __rsub__(self, o):
        o = SInt.of(o)
        if o is NotImplemented: return o
        return o - self

    def __neg__(self):
        return SInt(-self.e, -self.hi, -self.lo)

    def __pos__(self):
        return self

    def __mul__(self, o):
        o = SInt.of(o)
        if o is NotImplemented: return o
        c = [self.lo * o.lo, self.lo * o.hi, self.hi * o.lo, self.hi * o.hi]
        return SInt(self.e * o.e, min(c), max(c))
    __rmul__ = __mul__

    def __floordiv__(self, o):
        if not (isinstance(o, int) and o > 0):
            raise Inconclusive("floordiv by non-constant")
        q = z3.If(self.e >= 0, self.e / o, -((-self.e + (o - 1)) / o))
        return SInt(q, self.lo // o, self.hi // o)

    def __mod__(self, o):
        if not (isinstance(o, int) and o > 0):
            raise Inconclusive("mod by non-constant")
        q = self // o
        return SInt(self.e - q.e * o, 0, o - 1)

    def __truediv__(self, o):
        from .sfmt import SFloat
        return SFloat.of(self) / o

    def __lshift__(self, o):
        if isinstance(o, SInt):
            o = o.concretize()
        assert isinstance(o, int) and o >= 0
        return SInt(self.e << o, min(self.lo << o, self.lo), max(self.hi << o, self.hi))

    def __rlshift__(self, o):
        return SInt.of(o) << self.concretize()

    def __rshift__(self, o):
        if isinstance(o, SInt):
            o = o.concretize()
        assert isinstance(o, int) and o >= 0
        return SInt(self.e >> o, self.lo >> o, self.hi >> o)

    def __rrshift__(self, o):
        return SInt.of(o) >> self.concretize()

    def _bb(self, o):
        n = max(self.lo.bit_length(), self.hi.bit_length(), o.lo.bit_length(), o.hi.bit_length()) + 1
        if self.lo >= 0 and o.lo >= 0:
            return 0, (1 << n) - 1
        return -(1 << n), (1 << n) - 1

    def __and__(self, o):
        o = SInt.of(o)
        if o is NotImplemented: return o
        lo, hi = self._bb(o)
        if o.lo >= 0 and self.lo >= 0: lo, hi = 0, min(self.hi, o.hi)
        elif o.lo >= 0: lo, hi = 0, o.hi
        elif self.lo >= 0: lo, hi = 0, self.hi
        return SInt(self.e & o.e, lo, hi)
    __rand__ = __and__

    def __or__(self, o):
        o = SInt.of(o)
        if o is NotImplemented: return o
        lo, hi = self._bb(o)
        return SInt(self.e | o.e, lo, hi)
    __ror__ = __or__

    def __xor__(self, o):
        o = SInt.of(o)
        if o is NotImplemented: return o
        lo, hi = self._bb(o)
        return SInt(self.e ^ o.e, lo, hi)
    __rxor__ = __xor__

    def __invert__(self):
        return SInt(~self.e, ~self.hi, ~self.lo)

    def __abs__(self):
        m = max(abs(self.lo), abs(self.hi))
        return SInt(z3.If(self.e < 0, -self.e, self.e),
                    0 if self.lo <= 0 <= self.hi else min(abs(self.lo), abs(self.hi)), m)

    def __lt__(self, o):
        if not isinstance(o, (int, SInt)): return NotImplemented
        return SBool(self.e < bv(o))

    def __le__(self, o):
        if not isinstance(o, (int, SInt)): return NotImplemented
        return SBool(self.e <= bv(o))

    def __gt__(self, o):
        if not isinstance(o, (int, SInt)): return NotImplemented
        return SBool(self.e > bv(o))

    def __ge__(self, o):
        if not isinstance(o, (int, SInt)): return NotImplemented
        return SBool(self.e >= bv(o))

    def __eq__(self, o):
        if not isinstance(o, (int, SInt)): return False
        return SBool(self.e == bv(o))

    def __ne__(self, o):
        if not isinstance(o, (int, SInt)): return True
        return SBool(self.e != bv(o))

    def __bool__(self):
        return ENGINE.branch(self.e != 0)

    def concretize(self):
        return ENGINE.concretize(self.e)

    __index__ = concretize

    def __hash__(self):
        return hash(self.concretize())

    def __format__(self, spec):
        from .sfmt import marker
        return marker(self.e, spec, 'int')

    def __repr__(self):
        return "SInt(%s)" % z3.simplify(self.e)

    __str__ = None   # set below


def _sint_str(self):
    from .sfmt import marker
    return marker(self.e, '', 'int')


SInt.__str__ = _sint_str


def fresh_byte(name):
    b = z3.BitVec(name, 8)
    return SInt(z3.ZeroExt(W - 8, b), 0, 255)


def fresh_uint(name, bits):
    b = z3.BitVec(name, bits)
    return SInt(z3.ZeroExt(W - bits, b), 0, (1 << bits) - 1)


def fresh_sint(name, bits):
    b = z3.BitVec(name, bits)
    return SInt(z3.SignExt(W - bits, b), -(1 << (bits - 1)), (1 << (bits - 1)) - 1)


def fresh_bool(name):
    if ENGINE is not None:
        ENGINE.free_bools.add(name)
    return SBool(z3.Bool(name))


def le_bytes(v, n):
    """n little-endian SInt bytes of SInt v"""
    return [(v >> (8 * k)) & 0xFF for k in range(n)]


def mval(m, x):
    """python value of int|SInt x under model m"""
    if isinstance(x, SInt):
        return m.eval(x.e, model_completion=True).as_signed_long()
    return x


def mbytes(m, items):
    return bytes(mval(m, x) & 0xFF for x in items)


class SBytes:
    def __init__(self, items):
        self.items = list(items)

    def concrete(self):
        return all(isinstance(x, int) for x in self.items)

    def __len__(self):
        return len(self.items)

    def _clamp(self, x):
        """resolve a symbolic slice bound like CPython does, forking into: >= len | in range | < -len"""
        if not isinstance(x, SInt):
            return x
        n = len(self.items)
        if x >= n:
            return n
        if x < -n:
            return 0
        return x.concretize()

    def __getitem__(self, i):
        if isinstance(i, slice):
            if isinstance(i.start, SInt) or isinstance(i.stop, SInt):
                assert i.step is None
                i = slice(self._clamp(i.start), self._clamp(i.stop))
            r = self.items[i]
            if all(isinstance(x, int) for x in r):
                return bytes(r)
            return SBytes(r)
        if isinstance(i, SInt):
            n = len(self.items)
            if i >= n or i < -n:
                raise IndexError("index out of range")
            i = i.concretize()
        return self.items[i]

    def __iter__(self):
        return iter(self.items)

    def __add__(self, o):
        r = self.items + list(o)
        return SBytes(r)

    def __radd__(self, o):
        return SBytes(list(o) + self.items)

    def __mul__(self, n):
        return SBytes(self.items * n)

    def __contains__(self, v):
        if isinstance(v, (bytes, bytearray, SBytes)):
            sub = list(v)
            n = len(sub)
            alts = [z3.And([bv(self.items[i + k]) == bv(sub[k]) for k in range(n)] + [z3.BoolVal(True)])
                    for i in range(len(self.items) - n + 1)]
            return bool(SBool(z3.Or(alts + [z3.BoolVal(False)])))
        return bool(SBool(z3.Or([bv(x) == bv(v) for x in self.items] + [z3.BoolVal(False)])))

    def find(self, sub, start=0):
        sub = list(sub)
        n = len(sub)
        for i in range(start, len(self.items) - n + 1):
            if bool(SBool(z3.And([bv(self.items[i + k]) == bv(sub[k]) for k in range(n)]))):
                return i
        return -1

    def split(self, sep, maxsplit=-1):
        assert len(sep) == 1 and maxsplit == 1
        for i, x in enumerate(self.items):
            if bool(SBool(bv(x) == sep[0])):
                return [self[:i], self[i + 1:]]
        return [self]

    def startswith(self, p):
        p = list(p)
        if len(p) > len(self.items):
            return False
        return bool(SBool(z3.And([bv(a) == bv(b) for a, b in zip(self.items, p)] + [z3.BoolVal(True)])))

    def eq(self, o):
        o = list(o)
        if len(o) != len(self.items):
            return z3.BoolVal(False)
        return z3.And([bv(a) == bv(b) for a, b in zip(self.items, o)] + [z3.BoolVal(True)])

    def __eq__(self, o):
        if not isinstance(o, (bytes, bytearray, SBytes)):
            return False
        return bool(SBool(self.eq(o)))

    def __ne__(self, o):
        return not self.__eq__(o)

    def __hash__(self):
        return id(self)

    def __bytes__(self):
        return bytes(x if isinstance(x, int) else x.concretize() for x in self.items)

    def hex(self):
        return bytes(self).hex()

    def decode(self, enc='utf-8', errors='strict'):
        from .sstr import sbytes_decode
        return sbytes_decode(self, enc, errors)

    def __repr__(self):
        return 'SBytes(%d)' % len(self.items)


def beq(a, b):
    """z3 term: byte sequences a and b (bytes|SBytes|list) are equal"""
    a, b = list(a), list(b)
    if len(a) != len(b):
        return z3.BoolVal(False)
    return z3.And([bv(x) == bv(y) for x, y in zip(a, b)] + [z3.BoolVal(True)])


_CODES = {'B': (1, False), 'b': (1, True), 'H': (2, False), 'h': (2, True), 'I': (4, False), 'i': (4, True),
          'L': (4, False), 'l': (4, True), 'Q': (8, False), 'q': (8, True), 'x': (1, None),
          'f': (4, 'f'), 'd': (8, 'f')}


def _parse_fmt(fmt):
    out = []
    n = ''
    for ch in fmt[1:]:
        if ch.isdigit():
            n += ch
        elif ch == 's':
            out.append(('s', int(n) if n else 1))
            n = ''
        elif ch in _CODES:
            for _ in range(int(n) if n else 1):
                out.append(_CODES[ch])
            n = ''
        else:
            raise Inconclusive("struct format %r not modelled" % fmt)
    return out


class SymStruct:
    """little-endian composition of B b H h I i L l Q q s x; validated against struct every run"""

    def __init__(self, fmt):
        if isinstance(fmt, bytes):
            fmt = fmt.decode()
        if fmt[0] not in '<=>!@':
            fmt = '=' + fmt
        self.fmt = fmt
        self.format = fmt
        self.real = _struct.Struct(fmt)
        self.size = self.real.size
        self._fields = None

    @property
    def fields(self):
        if self._fields is None:
            if self.fmt[0] not in '<=':
                raise Inconclusive("struct byte order %r not modelled" % self.fmt)
            self._fields = _parse_fmt(self.fmt)
        return self._fields

    def unpack(self, buf):
        if isinstance(buf, (bytes, bytearray, memoryview)):
            return self.real.unpack(buf)
        if len(buf) != self.size:
            raise _struct.error("unpack requires a buffer of %d bytes" % self.size)
        if all(isinstance(x, int) for x in buf):
            return self.real.unpack(bytes(list(buf)))
        out = []
        pos = 0
        lst = list(buf)
        for f in self.fields:
            if f[0] == 's':
                out.append(SBytes(lst[pos:pos + f[1]])[:])
                pos += f[1]
                continue
            size, signed = f
            if signed is None:
                pos += size
                continue
            part = lst[pos:pos + size]
            if signed == 'f':
                if all(isinstance(x, int) for x in part):
                    out.append(_struct.unpack('<f' if size == 4 else '<d', bytes(part))[0])
                else:
                    from .sfmt import SFloat, D, F32, RNE
                    bits = z3.Concat(*[z3.Extract(7, 0, bv(x)) for x in reversed(part)])
                    if size == 4:
                        out.append(SFloat(z3.fpToFP(RNE, z3.fpBVToFP(bits, F32), D)))
                    else:
                        out.append(SFloat(z3.fpBVToFP(bits, D)))
                pos += size
                continue
            if all(isinstance(x, int) for x in part):
                out.append(int.from_bytes(bytes(part), 'little', signed=signed))
                pos += size
                continue
            v = SInt.of(0)
            for k in range(size):
                v = v | (SInt.of(part[k]) << (8 * k))
            if signed:
                top = 1 << (8 * size - 1)
                v = (v ^ top) - top
                v = SInt(z3.simplify(v.e), -top, top - 1)
            else:
                v = SInt(z3.simplify(v.e), 0, (1 << (8 * size)) - 1)
            out.append(v)
            pos += size
        return tuple(out)

    def unpack_from(self, buf, offset=0):
        return self.unpack(buf[offset:offset + self.size])

    def pack(self, *vals):
        if all(isinstance(x, (int, float, bytes, bytearray)) for x in vals):
            return self.real.pack(*vals)
        out = []
        fields = [f for f in self.fields]
        vi = 0
        for f in fields:
            if f[0] == 's':
                v = list(vals[vi]); vi += 1
                v = (v + [0] * f[1])[:f[1]]
                out.extend(v)
                continue
            size, signed = f
            if signed is None:
                out.append(0)
                continue
            v = vals[vi]; vi += 1
            if signed == 'f':
                if isinstance(v, (int, float)):
                    out.extend(_struct.pack('<f' if size == 4 else '<d', v))
                    continue
                raise Inconclusive("pack of symbolic float")
            if not isinstance(v, (int, SInt)):
                raise _struct.error("required argument is not an integer")
            v = SInt.of(v)
            lo, hi = (-(1 << (8 * size - 1)), (1 << (8 * size - 1)) - 1) if signed else (0, (1 << (8 * size)) - 1)
            if not (v >= lo) or not (v <= hi):
                raise _struct.error("argument out of range")
            for k in range(size):
                b = (v >> (8 * k)) & 0xFF
                e = z3.simplify(b.e)
                out.append(e.as_long() if z3.is_bv_value(e) else SInt(e, 0, 255))
        if vi != len(vals):
            raise _struct.error("pack expected %d items for packing (got %d)" % (vi, len(vals)))
        if all(isinstance(x, int) for x in out):
            return bytes(out)
        return SBytes(out)


class SymStructModule:
    error = _struct.error
    Struct = SymStruct
    calcsize = staticmethod(_struct.calcsize)

    @staticmethod
    def unpack(fmt, b):
        return SymStruct(fmt).unpack(b)

    @staticmethod
    def unpack_from(fmt, b, offset=0):
        return SymStruct(fmt).unpack_from(b, offset)

    @staticmethod
    def pack(fmt, *v):
        return SymStruct(fmt).pack(*v)


class _NB:
    def __init__(self, n):
        self.nbytes = n


class SymIO:
    """io.BytesIO / BufferedReader over an SBytes; position may be symbolic"""

    def __init__(self, data=b''):
        if isinstance(data, SymIO):
            data = data.data
        self.data = data if isinstance(data, SBytes) else SBytes(list(data))
        self.pos = 0

    @property
    def raw(self):
        return self

    def getbuffer(self):
        return _NB(len(self.data))

    def _cpos(self):
        if isinstance(self.pos, SInt):
            if self.pos >= len(self.data):
                return None
            self.pos = self.pos.concretize()
        if self.pos >= len(self.data):
            return None
        return self.pos

    def read(self, n=-1):
        p = self._cpos()
        if p is None:
            return b''
        rest = len(self.data) - p
        if n is None:
            n = -1
        if isinstance(n, SInt):
            if n < 0 or n >= rest:
                n = rest
            else:
                n = n.concretize()
        elif n < 0 or n > rest:
            n = rest
        r = self.data[p:p + n]
        self.pos = p + n
        return r

    def peek(self, n=0):
        p = self._cpos()
        if p is None:
            return b''
        return self.data[p:]

    def tell(self):
        return self.pos

    def seek(self, p, whence=0):
        if whence == 1:
            p = self.pos + p
        elif whence == 2:
            p = len(self.data) + p
        if isinstance(p, SInt):
            if p < 0:
                raise ValueError("negative seek position")
        elif p < 0:
            raise ValueError("negative seek position %r" % p)
        self.pos = p
        return p

    def getvalue(self):
        return self.data[:]

    def close(self):
        pass

    def __enter__(self):
        return self

    def __exit__(self, *a):
        return False


class SymIOModule:
    BytesIO = SymIO
    BufferedReader = staticmethod(lambda raw, *a, **k: raw)
    SEEK_CUR = 1
    SEEK_END = 2
    SEEK_SET = 0
    import io as _io
    StringIO = _io.StringIO
    UnsupportedOperation = _io.UnsupportedOperation


class UnwindExceeded(Exception):
    pass


_range = range
RANGE_CAP = [64]
UNWOUND = [None]     # sticky: the code under test may swallow the exception in a broad except clause


def sx_range(*args):
    if all(isinstance(a, int) for a in args):
        return _range(*args)
    if len(args) == 1:
        start, stop, step = 0, args[0], 1
    elif len(args) == 2:
        start, stop, step = args[0], args[1], 1
    else:
        start, stop, step = args
    assert isinstance(step, int) and step > 0

    def gen():
        i = start
        n = 0
        while i < stop:
            n += 1
            if n > RANGE_CAP[0]:
                UNWOUND[0] = "range loop exceeded %d iterations" % RANGE_CAP[0]
                raise UnwindExceeded("range loop exceeded %d iterations" % RANGE_CAP[0])
            yield i
            i = i + step
    return gen()


_isinstance = isinstance


def sx_isinstance(o, t):
    # the builtins `int` / `str` may be shadowed by the shims in the module under test
    def unshim(x):
        if x is sx_int:
            return int
        if getattr(x, '__name__', '') == 'sx_str':
            return str
        if x is sx_bytes:
            return bytes
        if x is sx_bytearray:
            return bytearray
        return x
    t = tuple(unshim(x) for x in t) if _isinstance(t, tuple) else unshim(t)
    if _isinstance(o, SInt) and (t is int or (_isinstance(t, tuple) and int in t)):
        return True
    if _isinstance(o, SBytes) and (t in (bytes, bytearray) or
                                   (_isinstance(t, tuple) and (bytes in t or bytearray in t))):
        return True
    if type(o).__name__ == 'SStr' and (t is str or (_isinstance(t, tuple) and str in t)):
        return True
    return _isinstance(o, t)


_int = int


class _SxIntMeta(type):
    def __instancecheck__(cls, o):
        return _isinstance(o, (_int, SInt))


def sx_int(x=0, base=None):
    if _isinstance(x, SInt):
        return x
    if type(x).__name__ == 'SStr':
        from .sstr import sstr_to_int
        return sstr_to_int(x, 10 if base is None else base)
    if type(x).__name__ == 'SFloat':
        return x.to_int()
    if base is None:
        return _int(x)
    return _int(x, base)


def sx_len(x):
    return len(x)


def sx_bytearray(x=b'', *a):
    if _isinstance(x, SBytes):
        return SBytes(x.items)
    return bytearray(x, *a)


def sx_bytes(x=b'', *a):
    if _isinstance(x, SBytes):
        return x
    if _isinstance(x, (list, tuple)) and any(_isinstance(i, SInt) for i in x):
        return SBytes(x)
    return bytes(x, *a)


def sx_abs(x):
    return abs(x)


def sx_min(*a):
    if len(a) == 1:
        a = tuple(a[0])
    if not any(_isinstance(x, SInt) for x in a):
        return min(a)
    r = a[0]
    for x in a[1:]:
        if x < r:
            r = x
    return r


def sx_max(*a):
    if len(a) == 1:
        a = tuple(a[0])
    if not any(_isinstance(x, SInt) for x in a):
        return max(a)
    r = a[0]
    for x in a[1:]:
        if x > r:
            r = x
    return r


def sx_hex(x):
    if _isinstance(x, SInt):
        from .sfmt import marker
        return marker(x.e, '#x', 'int')
    return hex(x)


def sx_in(a, b):
    if type(b) is dict and PATH_START:
        from . import hook as _h
        if _h.OPTIONS['symkey_modules'] and (_h._symkey(a) or (id(b) in _h.SIDE and _h.SIDE[id(b)][1])):
            return _h.sx_in_dict(a, b)
    if _isinstance(a, SInt) and _isinstance(b, (dict, set, frozenset, list, tuple, _range)):
        if _isinstance(b, _range):
            assert b.step == 1
            return bool(SBool(z3.And(a.e >= b.start, a.e < b.stop)))
        keys = [k for k in b if _isinstance(k, (int, SInt)) and not _isinstance(k, bool)]
        return bool(SBool(z3.Or([a.e == bv(k) for k in keys] + [z3.BoolVal(False)])))
    if _isinstance(b, (list, tuple)) and any(_isinstance(k, SInt) for k in b) and _isinstance(a, int):
        return bool(SBool(z3.Or([bv(k) == a for k in b if _isinstance(k, (int, SInt))] + [z3.BoolVal(False)])))
    return a in b


class NullLogger:
    def __getattr__(self, k):
        return lambda *a, **kw: None


class UF_Adler:
    """zlib stand-in: adler32 is an uninterpreted value supplied by the harness; records its argument"""

    def __init__(self):
        self.value = None
        self.calls = []

    def adler32(self, b, *a):
        self.calls.append(b)
        return self.value
