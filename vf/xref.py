"""shared harness for C13 / C14 / C15 / C16: skeleton DEX files (dexasm) whose method LA;->m1 is a template of
invoke / field / const-string / new-instance / const-class slots with symbolic pool-index operands; the real DEX() +
Analysis.add() + create_xref() run per path; every getter is compared with a reference computed from the id tables."""
import sys
import z3
from .engine import *
from . import common, hook, dexasm
from .dexasm import Cls, Mth, Fld, Code

FUNCS = ['androguard.core.analysis.analysis.Analysis.add', 'Analysis.create_xref', 'Analysis._create_xref',
         'Analysis._resolve_method', 'Analysis.get_method', 'Analysis.get_field_analysis', 'Analysis.get_fields',
         'Analysis.get_call_graph', 'ClassAnalysis.add_* / get_*', 'MethodAnalysis.add_xref_* / get_xref_*',
         'StringAnalysis.add_xref_from', 'FieldAnalysis', 'androguard.core.dex.DEX (full parse)']

# ------------------------------------------------------------------ the class model
EXT_FIELDS = [('Ljava/lang/System;', 'out', 'Ljava/io/PrintStream;')]
EXT_METHODS = [('Ljava/lang/Object;', '<init>', 'V', ()), ('Ljava/lang/String;', 'length', 'I', ()),
               ('[I', 'clone', 'Ljava/lang/Object;', ()), ('[Ljava/lang/String;', 'clone', 'Ljava/lang/Object;', ()),
               ('[[Ljava/lang/String;', 'clone', 'Ljava/lang/Object;', ()), ('[[[LB;', 'hashCode', 'I', ())]
STRINGS = ['s-one', 's-two', '', ' ']
TYPES = ['LB;', 'Ljava/lang/Object;', '[I', '[LB;', 'LA;', '[[LB;', '[[[Ljava/lang/String;', '[[J']

# template of LA;->m1 : (kind, opcode, units, which table)
SLOTS = [
    ('sget', 0x60, 2, 'f'), ('sput', 0x67, 2, 'f'), ('invoke-static', 0x71, 3, 'm'), ('invoke-virtual', 0x6e, 3, 'm'),
    ('const-string', 0x1a, 2, 's'), ('new-instance', 0x22, 2, 't'), ('const-class', 0x1c, 2, 't'), ('iget', 0x52, 2, 'f'),
    ('invoke-static/range', 0x77, 3, 'm'), ('const-string/jumbo', 0x1b, 3, 's'), ('iput', 0x59, 2, 'f'),
    ('invoke-interface', 0x72, 3, 'm'), ('sget-object', 0x62, 2, 'f'), ('invoke-super/range', 0x75, 3, 'm'),
]
DEFAULTS = {  # concrete operand of every slot when it is not symbolic (by identity, resolved per file)
    0: ('LA;', 'a1', 'I'), 1: ('LA;', 'a2', 'I'), 2: ('LB;', 'g', 'V', ()), 3: ('LA;', 'v1', 'V', ()), 4: 's-one', 5: 'LB;',
    6: 'Ljava/lang/Object;', 7: ('LA;', 'a2', 'I'), 8: ('LA;', 'm2', 'V', ()), 9: 's-two', 10: ('LA;', 'a1', 'I'),
    11: ('Ljava/lang/String;', 'length', 'I', ()), 12: ('Ljava/lang/System;', 'out', 'Ljava/io/PrintStream;'),
    13: ('Ljava/lang/Object;', '<init>', 'V', ()),
}


def slot_offsets():
    offs = []
    u = 0
    for _, _, n, _ in SLOTS:
        offs.append(2 * u)
        u += n
    return offs, u


def classes(split=None):
    """class model; split=None: both classes; 'A' / 'B': one class per file (the other one becomes external)"""
    offs, total = slot_offsets()

    def code_m1(P):
        units = []
        for i, (kind, op, n, tab) in enumerate(SLOTS):
            d = DEFAULTS[i]
            idx = {'f': lambda: P.field(*d), 'm': lambda: P.method(*d), 's': lambda: P.string(d), 't': lambda: P.type(d)}[tab]()
            if n == 2 and tab in 'st' or kind in ('sget', 'sput', 'sget-object'):
                units += [op, idx & 0xffff]
            elif kind in ('iget', 'iput'):
                units += [op | 0x1000, idx & 0xffff]
            elif kind == 'const-string/jumbo':
                units += [op, idx & 0xffff, idx >> 16]
            elif kind.endswith('/range'):
                units += [op, idx & 0xffff, 0]
            else:
                units += [op | (0x1000 if kind in ('invoke-virtual', 'invoke-interface') else 0), idx & 0xffff, 0]
        return units + [0x000e]
    rv = lambda P: [0x000e]

    def code_h(P):       # LB;->h calls LA;->m2 and reads LA;->a2 : a second caller for the symmetry checks
        return [0x0071, P.method('LA;', 'm2', 'V', ()), 0x0000, 0x0060, P.field('LB;', 'b1', 'I'), 0x001a, P.string('s-one'),
                0x0060, P.field('LB;', 'b2', 'I'), 0x000e]
    A = Cls('LA;', sfields=[Fld('a1', 'I', 9), Fld('a1', 'J', 9), Fld('a2', 'I', 9)],
            dmethods=[Mth('m1', 'V', (), 9, Code(2, 0, 1, code_m1)), Mth('m2', 'V', (), 9, Code(0, 0, 0, rv))],
            vmethods=[Mth('v1', 'V', (), 1, Code(1, 1, 0, rv))])
    B = Cls('LB;', sfields=[Fld('b1', 'I', 9)], ifields=[Fld('b2', 'I', 1)],
            dmethods=[Mth('g', 'V', (), 9, Code(0, 0, 0, rv)), Mth('h', 'V', (), 9, Code(1, 0, 0, code_h))])

    def extra(P):
        for f in EXT_FIELDS:
            P.field(*f)
        for m in EXT_METHODS:
            P.method(*m)
        for s in STRINGS:
            P.string(s)
        for t in TYPES:
            P.type(t)
        # every member of both classes is referenced from every file so that the index spaces cover the same targets
        for c in (A, B):
            for f in c.sfields + c.ifields:
                P.field(c.name, f.name, f.type)
            for m in c.dmethods + c.vmethods:
                P.method(c.name, m.name, m.ret, m.params)
    C = Cls('LC;', sfields=[Fld('c1', 'I', 9), Fld('c2', 'Ljava/lang/String;', 9)])        # no methods: its own file has no code item
    if split in ('C', 'ALL'):
        plain_extra = extra

        def extra(P):
            plain_extra(P)
            for f in C.sfields:
                P.field(C.name, f.name, f.type)
    if split in ('A3', 'B3'):                 # A / B as files of the three-file split: they also reference LC;'s members
        plain_extra2 = extra

        def extra(P):
            plain_extra2(P)
            for f in C.sfields:
                P.field(C.name, f.name, f.type)
    if split in ('B', 'B3'):
        # the second file has one more field / method id in front of the others: the same member has different index
        # numbers in the two files (an index only means something inside its own file)
        plain_extra3 = extra

        def extra(P):
            plain_extra3(P)
            P.field('L0;', 'q', 'I')
            P.method('L0;', 'q', 'V', ())
    cl = {'A': [A], 'B': [B], None: [A, B], 'C': [C], 'ALL': [A, B, C], 'A3': [A], 'B3': [B]}[split]
    return cl, extra


def assemble(split=None):
    cl, extra = classes(split)
    blob, P, L = dexasm.assemble(cl, extra=extra)
    return blob, P, L


def mkey(t):
    cls, name, ret, params = t
    return '%s->%s(%s)%s' % (cls, name, ' '.join(params), ret)


def fkey(t):
    return '%s->%s %s' % t


# ------------------------------------------------------------------ normalised view of an Analysis (object free)
def snapshot(dx):
    def mk(ma):
        return '%s->%s%s' % (ma.get_class_name() if hasattr(ma, 'get_class_name') else ma.class_name, ma.name, str(ma.descriptor))

    def fk(f):
        return '%s->%s %s' % (f.get_class_name(), f.get_name(), f.get_descriptor())
    out = dict(methods={}, classes={}, fields=[], field_lookup={}, strings={}, callgraph=[])
    for ma in dx.get_methods():
        k = mk(ma)
        d = dict(external=ma.is_external(),
                 xref_to=sorted([c.name, mk(m), off] for c, m, off in ma.get_xref_to()),
                 xref_from=sorted([c.name, mk(m), off] for c, m, off in ma.get_xref_from()),
                 xref_read=sorted([c.name, fk(f), off] for c, f, off in ma.get_xref_read()),
                 xref_write=sorted([c.name, fk(f), off] for c, f, off in ma.get_xref_write()),
                 new_instance=sorted([c.name, off] for c, off in ma.get_xref_new_instance()),
                 const_class=sorted([c.name, off] for c, off in ma.get_xref_const_class()))
        if k in out['methods']:
            out['methods'][k + '#dup'] = d
        else:
            out['methods'][k] = d
    for ca in dx.get_classes():
        out['classes'][ca.name] = dict(
            external=ca.is_external(),
            new_instance=sorted([mk(m), off] for m, off in ca.get_xref_new_instance()),
            const_class=sorted([mk(m), off] for m, off in ca.get_xref_const_class()),
            xref_to=sorted([c.name, int(k), mk(m), off] for c, refs in ca.get_xref_to().items() for k, m, off in refs),
            xref_from=sorted([c.name, int(k), mk(m), off] for c, refs in ca.get_xref_from().items() for k, m, off in refs))
    for fa in dx.get_fields():
        out['fields'].append([fk(fa.get_field()),
                              sorted([c.name, mk(m), off] for c, m, off in fa.get_xref_read(with_offset=True)),
                              sorted([c.name, mk(m), off] for c, m, off in fa.get_xref_write(with_offset=True))])
    out['fields'].sort()
    for vm in dx.vms:
        for c in vm.get_classes():
            for f in c.get_fields():
                fa = dx.get_field_analysis(f)
                out['field_lookup'][fk(f)] = None if fa is None else [
                    sorted([c2.name, mk(m), off] for c2, m, off in fa.get_xref_read(with_offset=True)),
                    sorted([c2.name, mk(m), off] for c2, m, off in fa.get_xref_write(with_offset=True))]
    for s, sa in dx.strings.items():
        x = sorted([c.name, mk(m), off] for c, m, off in sa.get_xref_from(with_offset=True))
        if x:
            out['strings'][s] = x
    G = dx.get_call_graph()
    out['callgraph'] = sorted([mk2(a), mk2(b)] for a, b in G.edges())
    # the same graph without isolated nodes: dropping nodes that have no edge cannot change the edge set
    G2 = dx.get_call_graph(no_isolated=True)
    out['callgraph_no_isolated'] = sorted([mk2(a), mk2(b)] for a, b in G2.edges())
    return out


def mk2(m):
    return '%s->%s%s' % (m.get_class_name(), m.get_name(), str(m.get_descriptor()))


# ------------------------------------------------------------------ reference snapshot from the id tables (no androguard)
DEFINED_FIELDS = {('LA;', 'a1', 'I'), ('LA;', 'a1', 'J'), ('LA;', 'a2', 'I'), ('LB;', 'b1', 'I'), ('LB;', 'b2', 'I')}
DEFINED_METHODS = {('LA;', 'm1', 'V', ()), ('LA;', 'm2', 'V', ()), ('LA;', 'v1', 'V', ()), ('LB;', 'g', 'V', ()), ('LB;', 'h', 'V', ())}
DEFINED_CLASSES = {'LA;', 'LB;'}


def mref(t):
    return '%s->%s(%s)%s' % (t[0], t[1], ' '.join(t[3]), t[2])


def expected(operands, opcodes=None):
    """operands: slot index -> target identity tuple/string (resolved from the id tables); opcodes: slot index -> opcode
    when it differs from the template.  Returns the parts of the snapshot the properties speak about, for caller
    LA;->m1 and the fixed second caller LB;->h."""
    opcodes = opcodes or {}
    offs, _ = slot_offsets()
    M1 = mref(('LA;', 'm1', 'V', ()))
    H = mref(('LB;', 'h', 'V', ()))
    calls = []          # (caller class, caller, callee tuple, off)
    reads, writes = [], []
    strings = []
    news, consts = [], []
    for i, (kind, op, n, tab) in enumerate(SLOTS):
        tg = operands[i]
        off = offs[i]
        if tab == 'm':
            calls.append(('LA;', M1, tg, off))
        elif tab == 'f':
            o_ = opcodes.get(i, op)
            is_read = 0x52 <= o_ <= 0x58 or 0x60 <= o_ <= 0x66          # iget* / sget* (Dalvik opcode table)
            (reads if is_read else writes).append(('LA;', M1, tg, off))
        elif tab == 's':
            strings.append(('LA;', M1, tg, off))
        else:
            (news if kind == 'new-instance' else consts).append(('LA;', M1, tg, off))
    calls.append(('LB;', H, ('LA;', 'm2', 'V', ()), 0))
    reads.append(('LB;', H, ('LB;', 'b1', 'I'), 6))
    reads.append(('LB;', H, ('LB;', 'b2', 'I'), 14))
    strings.append(('LB;', H, 's-one', 10))
    return dict(calls=calls, reads=reads, writes=writes, strings=strings, news=news, consts=consts)


def prim_array(cls):
    return cls.startswith('[') and not cls.lstrip('[').startswith('L')


def judge(which, snap, exp):
    """list of discrepancies of a snapshot against the expectation, for one property"""
    bad = []
    if which == 'C13':
        want_to = {}
        want_from = {}
        for ccls, caller, tg, off in exp['calls']:
            callee_cls = tg[0]
            # DESIGN 5a: an invoke on an array type must be reported; attributed to the array class or its element class
            alts = [mref(tg)]
            if callee_cls.startswith('['):
                alts.append(mref((callee_cls.lstrip('['),) + tuple(tg[1:])))
            want_to.setdefault(caller, []).append((alts, off, tg))
        for caller, lst in want_to.items():
            got = snap['methods'].get(caller, {}).get('xref_to')
            if got is None:
                bad.append('caller %s has no MethodAnalysis' % caller)
                continue
            got_pairs = [(g[1], g[2]) for g in got]
            for alts, off, tg in lst:
                hit = [a for a in alts if (a, off) in got_pairs]
                if not hit:
                    tag = 'ARRAY: ' if prim_array(tg[0]) else ''
                    bad.append(tag + 'invoke of %s at offset %d of %s is not reported as a callee (reported: %s)' % (mref(tg), off, caller, got_pairs))
                    continue
                callee = hit[0]
                ext = snap['methods'].get(callee, {}).get('external')
                internal = tg in DEFINED_METHODS
                if ext is None or ext == internal:
                    bad.append('callee %s should be %s' % (callee, 'the analysed method' if internal else 'an external stub'))
                back = snap['methods'].get(callee, {}).get('xref_from', [])
                if [caller.split('->')[0], caller, off] not in back and not any(b[1] == caller and b[2] == off for b in back):
                    bad.append('edge %s@%d -> %s missing from the callee\'s caller list' % (caller, off, callee))
                if [caller, callee] not in snap['callgraph']:
                    bad.append('call graph lacks the edge %s -> %s' % (caller, callee))
            extra = [p for p in got_pairs if not any(p[0] in a and p[1] == o for a, o, _ in lst)]
            if extra:
                bad.append('%s reports callees that are not invoked: %s' % (caller, extra))
        if any(k.endswith('#dup') for k in snap['methods']):
            bad.append('two MethodAnalysis objects for one method: %s' % [k for k in snap['methods'] if k.endswith('#dup')])
        edges_ok = all(any(e[0] == c and e[1] in a for _, c, tg, o in exp['calls'] for a in [[mref(tg), mref((tg[0].lstrip('['),) + tuple(tg[1:]))]])
                       for e in snap['callgraph'])
        if not edges_ok:
            bad.append('call graph has an edge without a reported callee: %s' % snap['callgraph'])
        if snap.get('callgraph_no_isolated', snap['callgraph']) != snap['callgraph']:
            bad.append('get_call_graph(no_isolated=True) has other edges than the full call graph: %s vs %s' % (
                snap['callgraph_no_isolated'], snap['callgraph']))
    elif which == 'C14':
        want = {}
        for kind, lst in (('r', exp['reads']), ('w', exp['writes'])):
            for ccls, caller, tg, off in lst:
                if tg in DEFINED_FIELDS:
                    want.setdefault(fkey(tg), {'r': [], 'w': []})[kind].append([ccls, caller, off])
        for f in DEFINED_FIELDS:
            k = fkey(f)
            got = snap['field_lookup'].get(k)
            w = want.get(k, {'r': [], 'w': []})
            cross = 'CROSS: ' if any(x[0] != f[0] for x in w['r'] + w['w']) else ''
            if got is None:
                bad.append('no FieldAnalysis for the defined field %s' % k)
                continue
            if got[0] != sorted(w['r']) or got[1] != sorted(w['w']):
                bad.append(cross + 'field %s: reads/writes %r, bytecode has %r' % (k, got, [sorted(w['r']), sorted(w['w'])]))
        names = [f[0] for f in snap['fields']]
        dups = sorted(set(n for n in names if names.count(n) > 1))
        if dups:
            crossed = {fkey(tg) for kind_, lst_ in (('r', exp['reads']), ('w', exp['writes'])) for cc, _c, tg, _o in lst_ if tg[0] != cc}
            bad.append(('CROSS: ' if set(dups) <= crossed else '') + 'more than one FieldAnalysis for %s' % dups)
        for kind, lst, key in (('r', exp['reads'], 'xref_read'), ('w', exp['writes'], 'xref_write')):
            for caller in set(c for _, c, _, _ in lst):
                w = sorted([fkey(tg), off] for _, c, tg, off in lst if c == caller and tg in DEFINED_FIELDS)
                got = sorted([g[1], g[2]] for g in snap['methods'].get(caller, {}).get(key, []))
                if got != w:
                    bad.append('%s.%s = %r, bytecode has %r' % (caller, key, got, w))
    elif which == 'C15':
        want = {}
        for ccls, caller, s, off in exp['strings']:
            want.setdefault(s, []).append([ccls, caller, off])
        for s in set(list(want) + list(snap['strings'])):
            if sorted(want.get(s, [])) != snap['strings'].get(s, []):
                bad.append('string %r: xrefs %r, bytecode loads it at %r' % (s, snap['strings'].get(s, []), sorted(want.get(s, []))))
        for kind, lst, key in (('new-instance', exp['news'], 'new_instance'), ('const-class', exp['consts'], 'const_class')):
            wantc, wantm = {}, {}
            for ccls, caller, t, off in lst:
                cls = t.lstrip('[')
                if not cls.startswith('L') or cls == ccls:
                    continue            # primitives arrays are no classes; uses of the own class are not recorded
                wantc.setdefault(cls, []).append([caller, off])
                wantm.setdefault(caller, []).append([cls, off])
            for cls in set(list(wantc) + [c for c in snap['classes'] if snap['classes'][c][key]]):
                if sorted(wantc.get(cls, [])) != snap['classes'].get(cls, {}).get(key, []):
                    bad.append('%s list of class %s: %r, bytecode has %r' % (kind, cls, snap['classes'].get(cls, {}).get(key), sorted(wantc.get(cls, []))))
            for m in set(list(wantm) + [m for m in snap['methods'] if snap['methods'][m][key]]):
                if sorted(wantm.get(m, [])) != snap['methods'].get(m, {}).get(key, []):
                    bad.append('%s list of method %s: %r, bytecode has %r' % (kind, m, snap['methods'].get(m, {}).get(key), sorted(wantm.get(m, []))))
    return bad


# ------------------------------------------------------------------ symbolic overlay
GROUPS = {'fields': [0, 1], 'fields2': [7, 10, 12], 'methods': [2, 3], 'methods2': [8, 11], 'methods3': [13, 2],
          'strings+types': [4, 5, 6], 'jumbo+types': [9, 5], 'field opcode': [], 'field opcode 2': [], 'invoke opcode': [],
          'invoke opcode 2': []}
# groups whose symbolic quantity is the opcode byte of one slot: slot -> allowed opcodes
OPGROUPS = {'field opcode': (7, list(range(0x52, 0x6e))), 'field opcode 2': (1, list(range(0x52, 0x6e))),
            'invoke opcode': (3, list(range(0x6e, 0x73)) + list(range(0x74, 0x79))),
            'invoke opcode 2': (8, list(range(0x6e, 0x73)) + list(range(0x74, 0x79)))}


def overlay(blob, P, L, group, tag=''):
    """returns items (with symbolic index bytes in the slots of `group`), the index terms, preconditions"""
    offs, _ = slot_offsets()
    ins0 = L.insns_off[('LA;', 'm1')]
    items = list(blob)
    idx = {}
    pre = []
    for i in GROUPS[group]:
        kind, op, n, tab = SLOTS[i]
        size = {'f': len(P.f_list), 'm': len(P.m_list), 's': len(P.s_list), 't': len(P.t_list)}[tab]
        o = ins0 + offs[i] + 2
        if kind == 'const-string/jumbo':
            bs = [fresh_byte('%sx%d_%d' % (tag, i, q)) for q in range(4)]
            items[o:o + 4] = bs
            e = bs[0].e | (bs[1].e << 8) | (bs[2].e << 16) | (bs[3].e << 24)
        else:
            bs = [fresh_byte('%sx%d_%d' % (tag, i, q)) for q in range(2)]
            items[o:o + 2] = bs
            e = bs[0].e | (bs[1].e << 8)
        pre.append(e < size)
        idx[i] = e
    if group in OPGROUPS:
        i, ops = OPGROUPS[group]
        b = fresh_byte('%sop%d' % (tag, i))
        items[ins0 + offs[i]] = b
        pre.append(z3.Or([b.e == o for o in ops]))
        idx['op%d' % i] = b.e
    return items, idx, pre


def resolve(P, i, k):
    tab = SLOTS[i][3]
    return {'f': lambda: tuple(P.f_list[k]), 'm': lambda: tuple(P.m_list[k]), 's': lambda: P.s_list[k], 't': lambda: P.t_list[k]}[tab]()


def cross_region(idx, P, defined=None):
    """a symbolic field operand of LA;->m1 selects a field that another analysed class defines"""
    defined = DEFINED_FIELDS if defined is None else defined
    return z3.Or([e == k for i, e in idx.items() if not isinstance(i, str) and SLOTS[i][3] == 'f'
                  for k, ff in enumerate(P.f_list) if tuple(ff) in defined and ff[0] != 'LA;'] + [z3.BoolVal(False)])


def setup():
    dex = common.dexmod()
    analysis = common.analysismod()
    return dex, analysis


def analyse(dex, analysis, blobs_items):
    dx = analysis.Analysis()
    for it in blobs_items:
        d = dex.DEX(SBytes(it) if not isinstance(it, (bytes, bytearray)) else it)
        dx.add(d)
    dx.create_xref()
    return dx


def job(jc, spec):
    which, group = spec
    dex, analysis = setup()
    blob, P, L = assemble()
    hook.ZL.value = int.from_bytes(blob[8:12], 'little')
    items, idx, pre = overlay(blob, P, L, group)
    eng = jc.new_engine(pre=pre)
    label = '%s %s' % (which, group)

    def go():
        dx = analyse(dex, analysis, [items])
        try:
            return snapshot(dx)
        except (Inconclusive, Abort):
            raise
        except Exception as e:       # a failure of the observation code is a harness error, never a finding
            import traceback
            raise Inconclusive('snapshot failed: %r %s' % (e, traceback.format_exc()[-600:]))

    def ext(m):
        return dict(prop=which, group=group, idx={str(i): m.eval(e, model_completion=True).as_long() for i, e in idx.items()})
    opslot = OPGROUPS[group][0] if group in OPGROUPS else None
    for pc, (kind, snap) in eng.explore(go, keep_pcs=True):
        jc.reached('explored')
        m = eng.solve(pc)
        vals = {i: m.eval(e, model_completion=True).as_long() for i, e in idx.items()}
        pinned = z3.And([e == vals[i] for i, e in idx.items()])
        if kind == 'exc':
            jc.obligation(eng, pc, z3.BoolVal(False), ext, label=label, what='analysis raised %r' % (snap,))
            continue
        ops = {i: (resolve(P, i, vals[i]) if i in vals else DEFAULTS[i]) for i in range(len(SLOTS))}
        bad_all = judge(which, snap, expected(ops, {opslot: vals['op%d' % opslot]} if opslot is not None else None))
        known = [b for b in bad_all if b.startswith(('ARRAY: ', 'CROSS: '))]
        bad = [b for b in bad_all if not b.startswith(('ARRAY: ', 'CROSS: '))]
        # the operands are pinned on the path by the table lookups (checked), so the concrete comparison covers the path
        jc.obligations(eng, pc, {'operands pinned on the path (harness)': pinned, 'cross references': z3.BoolVal(not bad)}, ext,
                       label=label, what='%s: ' + (bad[0] if bad else ''))
        if which == 'C13':
            region = z3.Or([e == k for i, e in idx.items() if not isinstance(i, str) and SLOTS[i][3] == 'm'
                            for k, mm in enumerate(P.m_list) if prim_array(mm[0])] + [z3.BoolVal(False)])
            jc.obligation(eng, pc, z3.BoolVal(not known), ext, {'c13_primitive_array_receiver': region}, label=label + ':array receiver',
                          what=known[0] if known else '')
        if which == 'C14':
            region = cross_region(idx, P)
            jc.obligation(eng, pc, z3.BoolVal(not known), ext, {'c14_accessor_class': region}, label=label + ':cross-class access',
                          what=known[0] if known else '')
    eng.partition_guard()
    jc.sample(dict(group=group, symbolic_slots=[SLOTS[i][0] for i in GROUPS[group]], paths=eng.st.paths))


def run(ctx, which):
    setup()
    ctx.functions_encoded = FUNCS
    groups = {'C13': ['methods', 'methods2', 'methods3', 'invoke opcode', 'invoke opcode 2'],
              'C14': ['fields', 'fields2', 'field opcode', 'field opcode 2'], 'C15': ['strings+types', 'jumbo+types']}[which]
    ctx.bounds = dict(skeleton='2 classes (5 methods, 4 fields), 5 external members incl. array receivers, %d xref slots in LA;->m1' % len(SLOTS),
                      symbolic='the pool-index operands of the slots of one group at a time, each over its whole id table',
                      groups={g: [SLOTS[i][0] for i in GROUPS[g]] for g in groups})
    ctx.stubs = ['SymStruct / SymIO for the DEX parse', 'adler32 stub', 'NullLogger']
    ctx.assumptions = ['expected cross references are computed from the id tables of the skeleton (dexasm), independently of androguard',
                       'DESIGN 5a: an invoke on an array type may be attributed to the array class or its element class']
    ctx.outside_claim = ['more than one group of operands symbolic at once', 'larger class sets', 'opcodes outside the slot list']
    mod = sys.modules['vf.checks.%s' % which.lower()]
    ctx.diff_unhooked(mod, [dict(prop=which, group=g, idx={}) for g in groups[:1]])
    ctx.pmap(job, [(which, g) for g in groups])


def _concrete_snapshot(w):
    from androguard.core import dex
    from androguard.core.analysis import analysis
    blob, P, L = assemble()
    offs, _ = slot_offsets()
    ins0 = L.insns_off[('LA;', 'm1')]
    b = bytearray(blob)
    for i, k in w.get('idx', {}).items():
        if str(i).startswith('op'):
            b[ins0 + offs[int(str(i)[2:])]] = int(k)
            continue
        i = int(i)
        o = ins0 + offs[i] + 2
        n = 4 if SLOTS[i][0] == 'const-string/jumbo' else 2
        b[o:o + n] = int(k).to_bytes(n, 'little')
    blob2 = dexasm.fix_checksum(bytes(b))
    if hasattr(dex.zlib, 'calls'):
        dex.zlib.value = int.from_bytes(blob2[8:12], 'little')
    dx = analysis.Analysis()
    dx.add(dex.DEX(blob2))
    dx.create_xref()
    return snapshot(dx), P


def concrete(c):
    return _concrete_snapshot(c)[0]


def replay(w):
    try:
        snap, P = _concrete_snapshot(w)
    except Exception as e:
        return True, 'analysis raised %r' % e
    ops = {i: (resolve(P, i, int(w['idx'][str(i)])) if str(i) in w['idx'] else DEFAULTS[i]) for i in range(len(SLOTS))}
    opcodes = {int(i[2:]): int(k) for i, k in w['idx'].items() if str(i).startswith('op')}
    bad = judge(w['prop'], snap, expected(ops, opcodes))
    desc = {SLOTS[int(i)][0]: resolve(P, int(i), int(k)) for i, k in w['idx'].items() if not str(i).startswith('op')}
    desc.update({'opcode of slot %d' % i: hex(k) for i, k in opcodes.items()})
    return bool(bad), 'operands %r: %s' % (desc, '; '.join(bad[:3]))


# ------------------------------------------------------------------ C16: one DEX vs the same classes split over two
DEFINED_FIELDS3 = DEFINED_FIELDS | {('LC;', 'c1', 'I'), ('LC;', 'c2', 'Ljava/lang/String;')}


def job16(jc, spec):
    which, group = spec
    three = group.endswith('/3')
    group = group[:-2] if three else group
    dex, analysis = setup()
    blob1, P1, L1 = assemble('ALL' if three else None)
    blobA, PA, LA = assemble('A3' if three else 'A')
    blobB, PB, LB = assemble('B3' if three else 'B')
    blobC = assemble('C')[0] if three else None
    items1, idx, pre = overlay(blob1, P1, L1, group)
    offs, _ = slot_offsets()
    itemsA = list(blobA)
    insA = LA.insns_off[('LA;', 'm1')]
    for i, e in idx.items():
        tab = SLOTS[i][3]
        lst1 = {'f': P1.f_list, 'm': P1.m_list, 's': P1.s_list, 't': P1.t_list}[tab]
        idxA = {'f': PA.f_idx, 'm': PA.m_idx, 's': PA.s_idx, 't': PA.t_idx}[tab]
        mapped = z3.BitVecVal(0, W)
        for k, ident in enumerate(lst1):
            key = tuple(ident) if not isinstance(ident, str) else ident
            mapped = z3.If(e == k, z3.BitVecVal(idxA[key], W), mapped)
        n = 4 if SLOTS[i][0] == 'const-string/jumbo' else 2
        o = insA + offs[i] + 2
        m = SInt(mapped, 0, 0xffffffff)
        itemsA[o:o + n] = le_bytes(m, n)
    eng = jc.new_engine(pre=pre)
    label = 'C16 %s%s' % (group, ' (three files, one without code)' if three else '')

    class AdlerByLen:
        """three files are parsed on one path: the checksum stub answers per buffer length"""
        def __init__(self, blobs): self.t = {len(b) - 12: int.from_bytes(b[8:12], 'little') for b in blobs}
        calls = []
        def adler32(self, b, *a): return self.t[len(b)]
    saved = dex.zlib
    dex.zlib = AdlerByLen([blob1, blobA, blobB] + ([blobC] if three else []))

    def go():
        try:
            s1 = snapshot(analyse(dex, analysis, [items1]))
            s2 = snapshot(analyse(dex, analysis, [itemsA, blobB] + ([blobC] if three else [])))
            s3 = snapshot(analyse(dex, analysis, ([blobC] if three else []) + [blobB, itemsA]))
        except (Inconclusive, Abort):
            raise
        return s1, s2, s3

    def ext(m):
        return dict(prop='C16', group=group + ('/3' if three else ''), idx={str(i): m.eval(e, model_completion=True).as_long() for i, e in idx.items()})
    try:
        for pc, (kind, r) in eng.explore(go, keep_pcs=True):
            jc.reached('explored')
            if kind == 'exc':
                jc.obligation(eng, pc, z3.BoolVal(False), ext, label=label, what='analysis raised %r' % (r,))
                continue
            s1, s2, s3 = r
            diff = snap_diff(s1, s2) or snap_diff(s1, s3)
            jc.obligation(eng, pc, z3.BoolVal(not diff), ext, {'c14_accessor_class': cross_region(idx, P1, DEFINED_FIELDS3 if three else None)}, label=label,
                          what='split/ordered analysis differs from the single-DEX analysis: %s' % (diff or ''))
        eng.partition_guard()
    finally:
        dex.zlib = saved
    jc.sample(dict(group=group, files=['single', 'A then B', 'B then A'], paths=eng.st.paths))


def snap_diff(a, b):
    for k in ('methods', 'classes', 'fields', 'field_lookup', 'strings', 'callgraph'):
        if a[k] != b[k]:
            if isinstance(a[k], dict):
                for kk in sorted(set(a[k]) | set(b[k])):
                    if a[k].get(kk) != b[k].get(kk):
                        return '%s[%s]: %r vs %r' % (k, kk, a[k].get(kk), b[k].get(kk))
            return '%s: %r vs %r' % (k, a[k], b[k])
    return None


def run16(ctx):
    setup()
    ctx.functions_encoded = FUNCS
    groups = ['fields', 'methods', 'jumbo+types', 'methods/3', 'fields/3'] + (['fields2', 'methods2', 'methods3', 'strings+types', 'jumbo+types/3'] if ctx.thorough else [])
    ctx.bounds = dict(class_set='LA; + LB; as one DEX, and as two DEX files added in both orders; groups marked /3: LA; + LB; + LC; '
                      '(a class without methods, so that its file has no code item) as one DEX and as three files in two orders',
                      symbolic='the operands of one slot group, mapped through each file\'s own index space by an ite chain over the same variable',
                      groups=groups)
    ctx.stubs = ['SymStruct / SymIO', 'adler32 stub answering per file', 'NullLogger']
    ctx.assumptions = ['both files reference every member of both classes, so every single-DEX operand has an image in the split files']
    ctx.outside_claim = ['more than two files; permutations of more than two (pure enumeration)', 'larger class sets']
    mod = sys.modules['vf.checks.c16']
    ctx.diff_unhooked(mod, [dict(prop='C16', group='fields', idx={})])
    ctx.pmap(job16, [('C16', g) for g in groups])


def _concrete16(w):
    from androguard.core import dex
    from androguard.core.analysis import analysis
    import zlib as _z
    if hasattr(dex.zlib, 'calls'):
        class Z:
            calls = []
            @staticmethod
            def adler32(b, *a): return _z.adler32(bytes(b))
        dex.zlib = Z
    three = w.get('group', '').endswith('/3')
    blob1, P1, L1 = assemble('ALL' if three else None)
    blobA, PA, LA = assemble('A3' if three else 'A')
    blobB, PB, LB = assemble('B3' if three else 'B')
    blobC = assemble('C')[0] if three else None
    offs, _ = slot_offsets()
    b1, bA = bytearray(blob1), bytearray(blobA)
    for i, k in w.get('idx', {}).items():
        i, k = int(i), int(k)
        ident = resolve(P1, i, k)
        tab = SLOTS[i][3]
        kA = {'f': PA.f_idx, 'm': PA.m_idx, 's': PA.s_idx, 't': PA.t_idx}[tab][ident]
        n = 4 if SLOTS[i][0] == 'const-string/jumbo' else 2
        o1 = L1.insns_off[('LA;', 'm1')] + offs[i] + 2
        oA = LA.insns_off[('LA;', 'm1')] + offs[i] + 2
        b1[o1:o1 + n] = k.to_bytes(n, 'little')
        bA[oA:oA + n] = kA.to_bytes(n, 'little')
    b1, bA = dexasm.fix_checksum(bytes(b1)), dexasm.fix_checksum(bytes(bA))
    outs = []
    for files in ([b1], [bA, blobB] + ([blobC] if three else []), ([blobC] if three else []) + [blobB, bA]):
        dx = analysis.Analysis()
        for f in files:
            dx.add(dex.DEX(f))
        dx.create_xref()
        outs.append(snapshot(dx))
    return outs


def concrete16(c):
    s = _concrete16(c)
    return [snap_diff(s[0], s[1]), snap_diff(s[0], s[2]), s[0]['callgraph']]


def replay16(w):
    try:
        s = _concrete16(w)
    except Exception as e:
        return True, 'analysis raised %r' % e
    d = snap_diff(s[0], s[1]) or snap_diff(s[0], s[2])
    return bool(d), 'operands %r: %s' % (w['idx'], d)
