"""dalvik_sem - symbolic interpreter for the int subset of Dalvik (scratch prototype).

Driven by (offset, mnemonic, operands) tuples; operands already decoded (registers, literals, offsets).
"""
import z3


class DalvikThrow(Exception):
    pass


class Unwind(Exception):
    pass


BIN = {
    'add': lambda a, b: a + b, 'sub': lambda a, b: a - b, 'mul': lambda a, b: a * b,
    'and': lambda a, b: a & b, 'or': lambda a, b: a | b, 'xor': lambda a, b: a ^ b,
    'shl': lambda a, b: a << (b & 31), 'shr': lambda a, b: a >> (b & 31), 'ushr': lambda a, b: z3.LShR(a, b & 31),
}
CMP = {'eq': lambda a, b: a == b, 'ne': lambda a, b: a != b, 'lt': lambda a, b: a < b,
       'ge': lambda a, b: a >= b, 'gt': lambda a, b: a > b, 'le': lambda a, b: a <= b}


def lit(v):
    return z3.BitVecVal(v, 32)


def run(engine, insns, nregs, args, max_steps=400, payloads=None):
    """insns: dict offset -> (name, ops, length). args: list of BV32 for the last len(args) registers."""
    regs = {}
    for i, a in enumerate(args):
        regs[nregs - len(args) + i] = a
    pc = 0
    steps = 0
    while True:
        steps += 1
        if steps > max_steps:
            raise Unwind()
        name, ops, length = insns[pc]
        nxt = pc + length
        base = name.split('/')[0]
        if name == 'nop':
            pass
        elif base == 'const':
            regs[ops[0]] = lit(ops[1])
        elif base in ('move', 'move-object'):
            regs[ops[0]] = regs[ops[1]]
        elif base == 'return':
            return regs[ops[0]]
        elif base == 'return-void':
            return None
        elif base == 'goto':
            nxt = pc + ops[0] * 2
        elif name.startswith('if-') and name.endswith('z'):
            c = CMP[name[3:-1]](regs[ops[0]], lit(0))
            if engine.branch(c):
                nxt = pc + ops[1] * 2
        elif name.startswith('if-'):
            c = CMP[name[3:]](regs[ops[0]], regs[ops[1]])
            if engine.branch(c):
                nxt = pc + ops[2] * 2
        elif name in ('neg-int', 'not-int'):
            regs[ops[0]] = -regs[ops[1]] if name == 'neg-int' else ~regs[ops[1]]
        elif name in ('int-to-byte', 'int-to-short', 'int-to-char'):
            v = regs[ops[1]]
            regs[ops[0]] = {'int-to-byte': z3.SignExt(24, z3.Extract(7, 0, v)), 'int-to-short': z3.SignExt(16, z3.Extract(15, 0, v)),
                            'int-to-char': z3.ZeroExt(16, z3.Extract(15, 0, v))}[name]
        elif name.startswith('rsub-int'):
            regs[ops[0]] = lit(ops[2]) - regs[ops[1]]
        elif '-int' in name and name.split('-')[0] in list(BIN) + ['div', 'rem']:
            op = name.split('-')[0]
            if name.endswith('/2addr'):
                d, a, b = ops[0], regs[ops[0]], regs[ops[1]]
            elif '/lit' in name:
                d, a, b = ops[0], regs[ops[1]], lit(ops[2])
            else:
                d, a, b = ops[0], regs[ops[1]], regs[ops[2]]
            if op in ('div', 'rem'):
                if engine.branch(b == 0):
                    raise DalvikThrow('ArithmeticException')
                regs[d] = a / b if op == 'div' else z3.SRem(a, b)
            else:
                regs[d] = BIN[op](a, b)
        elif name in ('packed-switch', 'sparse-switch'):
            keys, targets = payloads[pc + ops[1] * 2]
            v = regs[ops[0]]
            for k, t in zip(keys, targets):
                if engine.branch(v == k):
                    nxt = pc + t * 2
                    break
        else:
            raise NotImplementedError(name)
        pc = nxt
