"""shared harness helpers"""
import os
from . import hook
from . import engine as E

REPO = hook.REPO

_mods = {}


def dexmod():
    """the real androguard.core.dex loaded from the working tree, with its C boundaries stubbed"""
    if 'dex' not in _mods:
        hook.install()
        from androguard.core import dex
        hook.shadow_dex(dex)
        _mods['dex'] = dex
    return _mods['dex']


def axmlmod():
    if 'axml' not in _mods:
        hook.install()
        from androguard.core import axml
        hook.shadow_axml(axml)
        _mods['axml'] = axml
    return _mods['axml']


def analysismod():
    if 'analysis' not in _mods:
        dexmod()
        from androguard.core.analysis import analysis
        analysis.isinstance = E.sx_isinstance
        analysis.logger = E.NullLogger()
        _mods['analysis'] = analysis
    return _mods['analysis']


class SymCM:
    """minimal ClassManager: only the packer (real DalvikPacker over the SymStruct stub)"""

    def __init__(self, dex):
        self.packer = dex.DalvikPacker(0x12345678)

    def get_odex_format(self):
        return False


def src_lines(path, start, end=None):
    """source text of repo lines (for evidence samples)"""
    with open(os.path.join(REPO, path)) as f:
        ls = f.readlines()
    return ''.join(ls[start - 1:(end or start)])


def sym_mutf8():
    """the mutf8 package's own pure-Python decoder/encoder, loaded through the same AST rewrite so that it can run on
    symbolic bytes (the compiled cmutf8 extension the repo normally binds cannot)"""
    if 'mutf8' not in _mods:
        import ast
        import types
        import importlib.util
        hook.install()
        spec = importlib.util.find_spec('mutf8.mutf8')
        src = open(spec.origin).read()
        tree = ast.fix_missing_locations(hook.Rewrite('mutf8.mutf8').visit(ast.parse(src)))
        mod = types.ModuleType('vf_sym_mutf8')
        from .sstr import sx_chr, sx_ord
        mod.chr = sx_chr
        mod.ord = sx_ord
        exec(compile(tree, spec.origin, 'exec'), mod.__dict__)
        _mods['mutf8'] = mod
    return _mods['mutf8']


def bind_sym_mutf8():
    """bind the symbolic decoder where the repo binds the C one: androguard.core.mutf8 and the dex module's `mutf8`"""
    dex = dexmod()
    from androguard.core import mutf8 as wrapper
    sm = sym_mutf8()
    real_dec = getattr(wrapper, '_vf_real_decode', None) or wrapper.decode_modified_utf8
    wrapper._vf_real_decode = real_dec

    def dec(s):
        if isinstance(s, (bytes, bytearray)):
            return real_dec(s)
        return sm.decode_modified_utf8(s)
    if wrapper.decode is wrapper.decode_modified_utf8 or getattr(wrapper.decode, '_vf', False):
        wrapper.decode = dec            # the alias `decode = decode_modified_utf8` of the unchanged tree
    wrapper.decode_modified_utf8 = dec  # a wrapper function defined in the module looks the name up at call time
    dec._vf = True
    # whatever else the wrapper module does around the decoder must be able to run on symbolic bytes too
    from .symre import wrap_compiled, SymRe
    wrap_compiled(wrapper)
    if hasattr(wrapper, 're'):
        wrapper.re = SymRe
    wrapper.bytes = E.sx_bytes
    wrapper.bytearray = E.sx_bytearray
    wrapper.isinstance = E.sx_isinstance
    return wrapper
