"""shared harness helpers"""
import os
from . import hook
from . import engine as E

REPO = hook.REPO

_mods = {}


def dexmod():
    """the real androguard.core.dex loaded from the working tree, with its C boundaries stubbed"""
    if 'dex' not in _mods:
        hook.install()
        from androguard.core import dex
        hook.shadow_dex(dex)
        _mods['dex'] = dex
    return _mods['dex']


def axmlmod():
    if 'axml' not in _mods:
        hook.install()
        from androguard.core import axml
        hook.shadow_axml(axml)
        _mods['axml'] = axml
    return _mods['axml']


def analysismod():
    if 'analysis' not in _mods:
        dexmod()
        from androguard.core.analysis import analysis
        analysis.isinstance = E.sx_isinstance
        analysis.logger = E.NullLogger()
        _mods['analysis'] = analysis
    return _mods['analysis']


class SymCM:
    """minimal ClassManager: only the packer (real DalvikPacker over the SymStruct stub)"""

    def __init__(self, dex):
        self.packer = dex.DalvikPacker(0x12345678)

    def get_odex_format(self):
        return False


def src_lines(path, start, end=None):
    """source text of repo lines (for evidence samples)"""
    with open(os.path.join(REPO, path)) as f:
        ls = f.readlines()
    return ''.join(ls[start - 1:(end or start)])
