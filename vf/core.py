"""check context: obligations, known findings, replay on the unhooked code, evidence, exit codes."""
import os
import sys
import json
import time
import hashlib
import subprocess
import traceback
import multiprocessing
import z3
from . import engine as E
from .engine import Engine, Stats, Inconclusive, set_engine

ROOT = os.path.dirname(os.path.dirname(os.path.abspath(__file__)))
REPO = os.environ.get('VERIF_REPO', '/repo')
PY = '/venv/bin/python'

EXIT_OK, EXIT_VIOLATION, EXIT_HARNESS = 0, 1, 3


class HarnessError(Exception):
    pass


def load_known():
    p = os.path.join(ROOT, 'known_findings.json')
    if not os.path.exists(p):
        return []
    return json.load(open(p))['findings']


class Ctx:
    def __init__(self, pid, tier='quick', seed=0, level='model_checking'):
        self.pid = pid
        self.tier = tier
        self.seed = seed
        self.level = level
        self.t0 = time.time()
        self.stats = Stats()
        self.samples = []
        self.assumptions = []
        self.functions_encoded = []
        self.bounds = {}
        self.outside_claim = []
        self.stubs = []
        self.info = {}
        self.validated = 0           # concrete differential runs + replays against the unhooked code
        self.reach = {}              # vacuity guard: class -> reached?
        self.witnesses = []          # dicts: finding (region id or None), witness, what
        self.known = {f['id']: f for f in load_known() if f['property'] == pid and f.get('status') == 'known'}
        self.extra_cov = {}

    thorough = property(lambda self: self.tier == 'thorough')

    # ---- bookkeeping
    def sample(self, s, limit=12):
        if len(self.samples) < limit:
            self.samples.append(s)

    def reached(self, cls, ok=True):
        self.reach[cls] = self.reach.get(cls, False) or ok

    def expect_reach(self, classes):
        for c in classes:
            self.reach.setdefault(c, False)

    def new_engine(self, pre=(), max_paths=200000):
        eng = set_engine(Engine(pre=pre, max_paths=max_paths, stats=self.stats))
        # stop exploring a job once it has produced several counterexamples outside the known findings
        # (a violation verdict needs no exhaustive exploration; a pass does, and is never cut short)
        eng.stop_fn = lambda: getattr(self, 'new_violations', 0) >= 6
        # the coverage guard backs a "held" verdict; once the job has counterexamples in hand the verdict does not rest on
        # coverage (and a path that died in a RecursionError may not have recorded all of its decisions)
        guard = eng.partition_guard
        eng.partition_guard = lambda: None if getattr(self, 'new_violations', 0) else guard()
        return eng

    # ---- obligations
    def obligation(self, eng, pc, ob, extract, regions=None, label='', what=''):
        """pc => ob must be valid.  `regions`: {finding_id: z3 predicate} for findings this obligation may hit.
        `extract(model)` -> JSON-able witness replayed by the check module's replay()."""
        m = eng.prove(pc, ob)
        if m is None:
            return True
        regions = regions or {}
        active = {k: r for k, r in regions.items() if k in self.known}
        if not active:
            self.add_witness(None, extract(m), label, what)
            return False
        neg = [z3.Not(ob)]
        for k, r in active.items():
            mk = eng.solve(pc, neg + [r])
            if mk is not None:
                self.add_witness(k, extract(mk), label, what)
        mn = eng.solve(pc, neg + [z3.Not(r) for r in active.values()])
        if mn is not None:
            self.add_witness(None, extract(mn), label, what)
        return False

    def obligations(self, eng, pc, groups, extract, regions=None, label='', what='%s differs from the specification'):
        """several named obligations on one path: one query for the conjunction, split only on failure"""
        items = [(k, z3.And(v) if isinstance(v, (list, tuple)) else v) for k, v in groups.items()]
        n = len(items)
        m = eng.prove(pc, z3.And([v for _, v in items]))
        if m is None:
            eng.st.obligations += n - 1
            eng.st.discharged += n - 1
            return True
        eng.st.obligations -= 1
        for k, v in items:
            self.obligation(eng, pc, v, extract, regions, label=label + ':' + k, what=what % k)
        return False

    def add_witness(self, finding, witness, label='', what=''):
        if finding is None:
            self.new_violations = getattr(self, 'new_violations', 0) + 1
        key = json.dumps([finding, label], sort_keys=True)
        n = sum(1 for w in self.witnesses if w['key'] == key)
        if n >= 3:               # keep a few witnesses per (finding, label)
            return
        self.witnesses.append(dict(key=key, finding=finding, witness=witness, label=label, what=what))

    def concrete_violation(self, witness, label='', what='', finding=None):
        """violation found without a model (e.g. path-level outcome); still replayed"""
        self.add_witness(finding if finding in self.known else None, witness, label, what)

    # ---- parallel map over independent jobs
    def pmap(self, fn, jobs, procs=None):
        """fn(job) -> dict(stats=..., witnesses=[...], samples=[...], reach={...}, extra={...}); fork-based"""
        procs = procs or min(16, os.cpu_count() or 1, max(1, len(jobs)))
        if procs <= 1 or len(jobs) <= 1 or os.environ.get('VERIF_SERIAL'):
            results = [_job_wrapper((fn, self, j)) for j in jobs]
        else:
            mp = multiprocessing.get_context('fork')
            with mp.Pool(procs) as pool:
                budget = int(os.environ.get('VERIF_JOB_TIMEOUT', 14400 if self.tier == 'thorough' else 1800))
                try:
                    results = pool.map_async(_job_wrapper, [(fn, self, j) for j in jobs], chunksize=1).get(timeout=budget)
                except multiprocessing.TimeoutError:
                    pool.terminate()
                    raise HarnessError("exploration did not finish within %d s (inconclusive)" % budget)
        out = []
        for r in results:
            if r.get('error'):
                raise HarnessError(r['error'])
            self.stats.add(r['stats'])
            for w in r['witnesses']:
                self.add_witness(w['finding'], w['witness'], w['label'], w['what'])
            for s in r['samples']:
                self.sample(s)
            for k, v in r['reach'].items():
                self.reached(k, v)
            self.validated += r['validated']
            out.append(r.get('result'))
        return out

    # ---- replay against the unhooked real code in a clean subprocess
    def replay_batch(self, witnesses):
        if not witnesses:
            return []
        # one process per witness (so that state which the code under test keeps between calls cannot carry over from one
        # replay to the next), as long as the number of witnesses allows it
        mod = sys.modules.get('vf.checks.%s' % self.pid.lower())
        if len(witnesses) > 1 and (len(witnesses) <= 48 or getattr(mod, 'REPLAY_ISOLATED', False)):
            out = []
            for w in witnesses:
                out += self.replay_batch([w])
            return out
        import tempfile
        fd, path = tempfile.mkstemp(prefix='verif-replay-', suffix='.json')
        with os.fdopen(fd, 'w') as f:
            json.dump([w['witness'] for w in witnesses], f)
        try:
            env = dict(os.environ)
            env['PYTHONPATH'] = '%s:%s:%s' % (REPO, ROOT, os.path.join(ROOT, '.deps'))
            env['PYTHONDONTWRITEBYTECODE'] = '1'
            p = subprocess.run([PY, '-m', 'vf.replay', self.pid, path], cwd=ROOT, env=env,
                               capture_output=True, text=True, timeout=1800)
            if p.returncode != 0:
                raise HarnessError("replay subprocess failed: %s\n%s" % (p.stdout[-2000:], p.stderr[-4000:]))
            res = json.loads(p.stdout.strip().splitlines()[-1])
        finally:
            os.unlink(path)
        self.validated += len(res)
        return res

    def diff_unhooked(self, mod, cases, collect=False):
        """Serval-style validation of the encoding: mod.concrete(case) is evaluated in this (hooked, stubbed)
        process and in a clean subprocess on the unhooked module; results must be identical.
        collect=True returns the mismatches [(case, hooked, unhooked)] instead of raising (C22, where a difference
        between two runs is what the property is about and is handed to the replay instead)."""
        import tempfile
        mine = []
        for c in cases:
            try:
                mine.append(_jsonable(mod.concrete(c)))
            except Exception as e:
                mine.append(['exc', type(e).__name__])
        fd, path = tempfile.mkstemp(prefix='verif-diff-', suffix='.json')
        with os.fdopen(fd, 'w') as f:
            json.dump(cases, f)
        try:
            env = dict(os.environ)
            env['PYTHONPATH'] = '%s:%s:%s' % (REPO, ROOT, os.path.join(ROOT, '.deps'))
            env['PYTHONDONTWRITEBYTECODE'] = '1'
            p = subprocess.run([PY, '-m', 'vf.replay', '--diff', self.pid, path], cwd=ROOT, env=env,
                               capture_output=True, text=True, timeout=1800)
            if p.returncode != 0:
                raise HarnessError("diff subprocess failed: %s" % p.stderr[-3000:])
            theirs = json.loads(p.stdout.strip().splitlines()[-1])
        finally:
            os.unlink(path)
        bad = []
        for c, a, b in zip(cases, mine, theirs):
            if a != b:
                if not collect:
                    raise HarnessError("hooked module disagrees with the unhooked one on %r: %r vs %r" % (c, a, b))
                bad.append((c, a, b))
        self.validated += len(cases)
        return bad

    # ---- finish
    def finish(self):
        # vacuity guard (skipped when counterexamples are in hand: exploration may have been cut short for them,
        # and a violation verdict does not rest on coverage)
        have_cex = any(w['finding'] is None for w in self.witnesses)
        missing = [k for k, v in self.reach.items() if not v]
        if missing and not have_cex:
            raise HarnessError("vacuity guard: no feasible path reached %s" % missing[:10])
        if self.stats.paths == 0 and not self.extra_cov.get('no_paths_ok'):
            raise HarnessError("vacuity guard: zero completed paths")
        if self.stats.unknown:
            raise HarnessError("solver returned unknown on %d queries" % self.stats.unknown)
        results = self.replay_batch(self.witnesses)
        known_hit = {}
        new = []
        bad = []
        for w, r in zip(self.witnesses, results):
            w['replay'] = r
            if not r.get('reproduced'):
                bad.append(w)
            elif w['finding'] is None:
                new.append(w)
            else:
                known_hit.setdefault(w['finding'], w)
        if bad:
            for w in bad[:5]:
                print("HARNESS-ERROR: witness did not reproduce on the real code: %s :: %s" % (
                    json.dumps(w['witness'])[:400], w['replay'].get('detail')), file=sys.stderr)
            raise HarnessError("%d solver witnesses did not reproduce concretely (encoding/stub wrong)" % len(bad))
        for k, w in sorted(known_hit.items()):
            print("KNOWN-FINDING: property=%s %s [%s] e.g. %s" % (
                self.pid, self.known[k]['what'], k, json.dumps(w['witness'])[:200]))
        viol_lines = []
        seen = set()
        for w in new:
            body = dict(property=self.pid, label=w['label'], what=w['what'], witness=w['witness'],
                        observed=w['replay'].get('detail'))
            h = hashlib.sha1(json.dumps(body, sort_keys=True).encode()).hexdigest()[:12]
            if h in seen:
                continue
            seen.add(h)
            d = os.path.join(ROOT if REPO == '/repo' else '/tmp/verif-dev-evidence', 'replays', self.pid)
            os.makedirs(d, exist_ok=True)
            path = os.path.join(d, h + '.json')
            json.dump(body, open(path, 'w'), indent=1)
            viol_lines.append("VIOLATION property=%s replay=%s" % (self.pid, path))
            print("  violation: %s :: %s :: %s" % (w['label'], w['what'], str(w['replay'].get('detail'))[:300]))
        self.write_evidence(len(viol_lines), sorted(known_hit))
        for l in viol_lines[:8]:
            print(l)
        return EXIT_VIOLATION if viol_lines else EXIT_OK

    def write_evidence(self, violations, known_hit=()):
        st = self.stats.as_dict()
        cov = dict(
            states=max(st['paths'], 0),
            transitions=st['decisions'],
            transitions_note='branch decisions evaluated along the explored paths (forced ones included); '
                             'forks=%d, concretisation sites=%d' % (st['forks'], st['concretisations']),
            traces_validated_against_impl=self.validated,
            samples=self.samples or ["(no sample recorded)"],
            obligations=st['obligations'], discharged=st['discharged'],
            queries=dict(total=st['queries'], unsat=st['unsat'], sat=st['sat'], unknown=st['unknown']),
            solver_s=st['solver_s'],
            functions_encoded=self.functions_encoded,
            bounds=self.bounds,
            stubs=self.stubs,
            outside_claim=self.outside_claim,
            known_findings_hit=list(known_hit),
            repo_files_loaded=sorted(set(_loaded_files())),
        )
        cov.update(self.info)
        if self.level == 'translation_validation':
            cov.setdefault('programs', self.extra_cov.get('programs', 0))
            cov.setdefault('disagreements_checked', self.extra_cov.get('disagreements_checked', 0))
        cov.update({k: v for k, v in self.extra_cov.items() if k != 'no_paths_ok'})
        ev = dict(property_id=self.pid, tier=self.tier, seed=self.seed, level=self.level, coverage=cov,
                  assumptions=self.assumptions, wall_s=round(time.time() - self.t0, 2), violations=violations)
        d = os.path.join(ROOT, 'evidence') if REPO == '/repo' else '/tmp/verif-dev-evidence'   # dev runs on scratch trees
        os.makedirs(d, exist_ok=True)
        tmp = os.path.join(d, self.pid + '.json.tmp')
        json.dump(ev, open(tmp, 'w'), indent=1, default=str)
        os.replace(tmp, os.path.join(d, self.pid + '.json'))


def _jsonable(x):
    return json.loads(json.dumps(x, default=lambda o: bytes(o).hex() if isinstance(o, (bytes, bytearray)) else repr(o)))


def _loaded_files():
    try:
        from . import hook
        return [p.replace(REPO + '/', '') for p in hook.FILES_LOADED]
    except Exception:
        return []


class JobCtx(Ctx):
    """per-job context inside a worker: collects and returns, never prints"""

    def __init__(self, parent):
        self.pid, self.tier, self.seed, self.level = parent.pid, parent.tier, parent.seed, parent.level
        self.t0 = time.time()
        self.stats = Stats()
        self.samples = []
        self.witnesses = []
        self.reach = {}
        self.validated = 0
        self.known = parent.known
        self.info = {}
        self.extra_cov = {}
        self.assumptions = []


def _job_wrapper(arg):
    fn, parent, job = arg
    jc = JobCtx(parent)
    try:
        res = fn(jc, job)
        return dict(stats=jc.stats.as_dict(), witnesses=jc.witnesses, samples=jc.samples, reach=jc.reach,
                    validated=jc.validated, result=res)
    except Inconclusive as e:
        return dict(error="inconclusive in job %r: %s\n%s" % (job, e, traceback.format_exc()[-1500:]))
    except BaseException as e:
        return dict(error="exception in job %r: %r\n%s" % (job, e, traceback.format_exc()[-3000:]))


def diff_validate(ctx, name, real_fn, stub_fn, inputs):
    """differential validation of a stub / hooked function against the real thing on concrete inputs"""
    for x in inputs:
        try:
            a = ('ok', real_fn(*x))
        except Exception as e:
            a = ('exc', type(e).__name__)
        try:
            b = ('ok', stub_fn(*x))
        except Exception as e:
            b = ('exc', type(e).__name__)
        if a != b:
            raise HarnessError("stub %s disagrees with the real implementation on %r: %r vs %r" % (name, x, a, b))
        ctx.validated += 1
