#!/bin/bash
# offline: z3 (and cvc5 for the cross-check) from the local wheelhouse into /verif/.deps for /venv/bin/python
cd "$(dirname "$0")"
set -e
if [ ! -d .deps/z3 ]; then
  /venv/bin/pip install --no-index --find-links /opt/veriftools/wheels --target .deps z3-solver >/dev/null
fi
if [ ! -d .deps/cvc5 ]; then
  /venv/bin/pip install --no-index --find-links /opt/veriftools/wheels --target .deps cvc5 >/dev/null 2>&1 || true
fi
/venv/bin/python -c "import sys; sys.path.insert(0,'.deps'); import z3; print('z3', z3.get_version_string())"
